(* C14 — No hidden shared state: instances, defaults and cstruct objects are independent. *)
From VF Require Import Model.Heap Proofs.HeapCorrect Gen.Generated Gen.GeneratedOk.
Open Scope list_scope. Open Scope nat_scope.

(* In every world reachable by construct / mutate operations, two distinct instances have no mutable cell in common ... *)
Theorem instances_separate : forall ops, Inv (hrun ops w0).
Proof. exact inv_reachable. Qed.
(* ... so mutating one instance (any cell of its arrays / nested structures) never changes what another instance shows ... *)
Theorem mutation_local : forall ops i j ti tj l v, i <> j ->
  let w := hrun ops w0 in
  nth_error (w_insts w) i = Some ti -> nth_error (w_insts w) j = Some tj -> In l (locs ti) ->
  observe (w_store (hstep w (HSet l v))) tj = observe (w_store w) tj.
Proof. exact mutation_is_local. Qed.
(* ... and a later default construction returns the zero value of its type whatever happened before, disturbing nobody. *)
Theorem default_stable : forall ops s,
  let w := hrun ops w0 in let w' := hstep w (HNew s) in
  (exists t, nth_error (w_insts w') (length (w_insts w)) = Some t /\ observe (w_store w') t = zero_obs s) /\
  (forall j tj, nth_error (w_insts w) j = Some tj -> observe (w_store w') tj = observe (w_store w) tj).
Proof. exact default_is_stable. Qed.
(* the premise of the model — default construction allocates fresh containers, nothing on the parse path is stored on a type — is
   re-checked against /repo on every run: *)
Theorem library_allocates_fresh_defaults : defaults_fresh = true /\ type_level_stores = [] /\ expr_scratch_attrs = [] /\ global_statements = 0%Z.
Proof. exact (conj defaults_are_fresh (conj no_type_level_stores (conj no_expression_scratch no_global_statements))). Qed.

Print Assumptions instances_separate.
Print Assumptions mutation_local.
Print Assumptions default_stable.

Example ex_world : let w := hrun [HNew (SNode [SAtom; SNode [SAtom; SAtom]]); HNew (SNode [SAtom; SNode [SAtom; SAtom]]); HSet 1 7%Z] w0 in
  map (observe (w_store w)) (w_insts w) = [ONode [OAtom 0%Z; ONode [OAtom 7%Z; OAtom 0%Z]]; ONode [OAtom 0%Z; ONode [OAtom 0%Z; OAtom 0%Z]]].
Proof. vm_compute. reflexivity. Qed.
