(* C15 — concurrent parsing with shared types is equivalent to sequential parsing (logic proved; runtime named in the manifest). *)
From VF Require Import Model.Threads Proofs.ThreadsCorrect Gen.GeneratedOk.
Open Scope list_scope.

(* If a reader's steps act on the executing thread's own state only (no type-level scratch state: the regenerated facts
   expr_scratch_attrs = [] and type_level_stores = [] say that this is what the code does), then under EVERY schedule, for any
   number of threads, each thread ends in the state it reaches running alone for the same number of its own steps. *)
Theorem local_state_noninterference : forall (L : Type) (step : L -> L) schedule (ls : list L) j d, (j < length ls)%nat ->
  nth j (run L step schedule ls) d = iter L step (count j schedule) (nth j ls d).
Proof. exact interleaving_is_sequential. Qed.
Print Assumptions local_state_noninterference.

Example ex_two_threads : run nat S [0; 1; 1; 0; 1]%nat [10; 20]%nat = [12; 23]%nat.
Proof. reflexivity. Qed.
