(* C16 — Pointers: width from configuration, dereference reads the target in place. *)
From VF Require Import Model.Pointer Proofs.PointerCorrect Proofs.LayoutCorrect Gen.GeneratedOk.
Open Scope string_scope. Open Scope list_scope. Open Scope Z_scope.

(* a pointer field occupies exactly the configured pointer type and is aligned like it *)
Theorem ptr_size_is_cfg : forall c t, ty_size c (TPtr t) = prim_size_z (c_ptr c) /\ ty_align c (TPtr t) = c_ptr_al c.
Proof. exact pointer_size_align. Qed.
(* its value is the integer stored there, and dumping writes the address back unchanged *)
Theorem ptr_value_roundtrip : forall e n sg pk a bs, (prim_endian (PInt n sg pk) e = LE \/ prim_endian (PInt n sg pk) e = BE) ->
  prim_write e (PInt n sg pk) (VInt a) = Ok bs -> forall rest, prim_read e (PInt n sg pk) (bs ++ rest) = Ok (VInt a, rest).
Proof. exact ptr_field_roundtrip. Qed.
(* dereferencing is parsing the target type at the absolute address — independent of the stream position *)
Theorem deref_is_read_at : forall c t s a, a <> 0 -> (forall al, t <> TPrim PVoid al) -> (forall al, t <> TPrim PChar al) ->
  deref c t s (mkPtr a true) = do x <- read_top c t s a; Ok (Some (fst x)).
Proof. exact deref_reads_target. Qed.
Theorem deref_char_is_nul_terminated_string : forall c al s a, a <> 0 ->
  deref c (TPrim PChar al) s (mkPtr a true) = do x <- read_top c (TArr (TPrim PChar al) LNull) s a; Ok (Some (fst x)).
Proof. exact deref_char_is_string. Qed.
(* null pointers and pointers without a stream raise the dedicated error *)
Theorem deref_null_err : forall c t s b, deref c t s (mkPtr 0 b) = Err ENullDeref.
Proof. exact deref_null. Qed.
Theorem deref_unbound_err : forall c t s a, deref c t s (mkPtr a false) = Err ENullDeref.
Proof. exact deref_unbound. Qed.
Theorem ptr_add : forall p n, ptr_arith (fun a b => Some (a + b)) p n = Some (mkPtr (p_addr p + n) (p_bound p)).
Proof. exact arith_add. Qed.

Print Assumptions ptr_value_roundtrip.
Print Assumptions deref_is_read_at.

Definition ex_cfg := mkCfg "<" (PInt 2 false true) 2 [] [].
Example ex_deref : deref ex_cfg (TPrim (PInt 2 false true) 2) [4; 0; 9; 9; 52; 18] (mkPtr 4 true) = Ok (Some (VInt 4660)).
Proof. vm_compute. reflexivity. Qed.
