(* C17 — structure values: local assignment. *)
From VF Require Import Model.Writer Proofs.SizeProps Proofs.RoundTrip Proofs.ValueRoundTrip Proofs.AssignProps Gen.GeneratedOk.
Open Scope string_scope. Open Scope list_scope. Open Scope Z_scope.

(* __eq__ / __hash__ / __bool__ / __init__ are Python methods generated per field count and patched with the field names; they are
   not modelled (DESIGN.md 10.2) and are decided by the oracle over many classes sharing a field count.  What is proved is the
   byte-level clause: for every packed structure of plain fields fs1 ++ f :: fs2 with distinct names whose field values dump to their
   declared sizes (`sized`: true of all typed values, see typed_values_have_declared_size), assigning f changes, in the dumped
   bytes, exactly the bytes of f: the dump before is a ++ old ++ b, the dump after is a ++ new ++ b, with |old| = |new| = sizeof(f). *)
Theorem assign_changes_only_that_field : forall c nm fs1 f fs2 vals sz sz' x wpos bs bs' n,
  let fs := fs1 ++ f :: fs2 in
  let vals' := set_field (f_name f) x vals in
  Forall (fun g => f_bits g = None /\ f_off g = None) fs -> NoDup (map f_name fs) ->
  Forall (fun g => sized c (fun g => write_ty c (f_ty g)) vals g /\ sized c (fun g => write_ty c (f_ty g)) vals' g) fs ->
  ty_size c (f_ty f) = Some n ->
  write_ty c (TStruct nm fs false) (VStruct vals sz) wpos = Ok bs ->
  write_ty c (TStruct nm fs false) (VStruct vals' sz') wpos = Ok bs' ->
  exists a old new b, bs = a ++ old ++ b /\ bs' = a ++ new ++ b /\ zlen old = n /\ zlen new = n.
Proof. exact assign_is_local. Qed.
Theorem typed_values_have_declared_size : forall c, endian_ok (c_endian c) -> forall t, flat t = true -> rt_ty c t = true ->
  forall v wpos bs n, has_ty c t v -> write_ty c t v wpos = Ok bs -> ty_size c t = Some n -> zlen bs = n.
Proof. exact typed_write_has_size. Qed.
(* the dump of such a structure is the concatenation of its fields' dumps *)
Theorem struct_dump_is_concatenation : forall c (W : field -> wfn) vals wstart fs, Forall (fun f => f_bits f = None /\ sized c W vals f) fs ->
  forall off offs, offs_agree c off fs offs -> forall out, (forall x, off = Some x -> zlen out = x) ->
  wstruct_loop c false wstart vals (map (fun f => (wmeta_of c f, W f)) fs) offs out wb_empty
  = do chs <- chunks_of W vals wstart fs (zlen out); Ok (out ++ List.concat chs, wb_empty).
Proof. exact wloop_is_chunks. Qed.

Print Assumptions assign_changes_only_that_field.
Print Assumptions typed_values_have_declared_size.

Definition ex_cfg := mkCfg "<" (PInt 8 false true) 8 [] [].
Definition fa := Fld "a" false (TPrim (PInt 1 false true) 1) None None.
Definition fb := Fld "b" false (TPrim (PInt 2 false true) 2) None None.
Definition fc := Fld "c" false (TArr (TPrim PChar 1) (LFixed 2)) None None.
Example ex_assign : let t := TStruct "s" [fa; fb; fc] false in
  dumps ex_cfg t (VStruct [("a", VInt 1); ("b", VInt 2); ("c", VBytes [104; 105])] []) = Ok [1; 2; 0; 104; 105] /\
  dumps ex_cfg t (VStruct (set_field "b" (VInt 772) [("a", VInt 1); ("b", VInt 2); ("c", VBytes [104; 105])]) []) = Ok [1; 4; 3; 104; 105].
Proof. vm_compute. split; reflexivity. Qed.

(* ---- the generated methods (Model/Methods.v: templates per field count, patched with the class's names and defaults; the model is held
   to the byte code of the real functions on every run).  V is any value domain with Python's tuple-element comparison `veqb`. ---- *)
From VF Require Import Model.Methods Proofs.MethodsCorrect.
Open Scope nat_scope.

(* for EVERY list of field names - whatever they are called, placeholders and builtins included - the patched __eq__ compares the classes
   and then exactly the listed fields, in order *)
Theorem generated_eq_is_fieldwise : forall V (veqb : V -> V -> bool) fields (a b : inst V),
  run_eq V veqb (generate_eq V fields) a b =
  if Nat.eqb (i_cls a) (i_cls b)
  then do va <- mapM (getattr V a) fields; do vb <- mapM (getattr V b) fields; Ok (list_eqb veqb va vb)
  else Ok false.
Proof. exact eq_is_fieldwise. Qed.
Theorem equal_exactly_when_same_type_and_all_fields_equal : forall V (veqb : V -> V -> bool) fields (a b : inst V),
  has_fields V a fields -> has_fields V b fields ->
  (run_eq V veqb (generate_eq V fields) a b = Ok true <->
   i_cls a = i_cls b /\ forall d f, In f fields -> veqb (field_of V a f d) (field_of V b f d) = true).
Proof. exact eq_true_iff. Qed.
Theorem instances_of_different_types_are_never_equal : forall V (veqb : V -> V -> bool) fields (a b : inst V),
  i_cls a <> i_cls b -> run_eq V veqb (generate_eq V fields) a b = Ok false.
Proof. exact eq_never_across_classes. Qed.
Theorem equal_instances_hash_equally : forall V (veqb : V -> V -> bool) vhash thash fields (a b : inst V),
  (forall x y, veqb x y = true -> vhash x = vhash y) ->
  run_eq V veqb (generate_eq V fields) a b = Ok true ->
  run_hash V vhash thash (generate_hash V fields) a = run_hash V vhash thash (generate_hash V fields) b.
Proof. exact equal_instances_hash_equally. Qed.
Theorem falsy_exactly_when_all_fields_are : forall V (truthy : V -> bool) fields (a : inst V), has_fields V a fields ->
  (run_bool V truthy (generate_bool V fields) a = Ok false <-> forall d f, In f fields -> truthy (field_of V a f d) = false).
Proof. exact falsy_iff_all_fields_falsy. Qed.
(* construction assigns every field in definition order: the argument given for it, or the type's default when none (or None) was given *)
Theorem construction_assigns_arguments_or_defaults : forall V (fields : list (string * V)) args,
  run_init V (generate_init V fields) args = Ok (init_spec V fields args).
Proof. exact init_assigns_arguments_or_defaults. Qed.

(* every field of a constructed instance is the argument given for it or, when none (or None) was given, the type's default *)
Theorem constructed_field_is_argument_or_default : forall V (fields : list (string * V)) args, NoDup (map fst fields) ->
  forall i nm d, nth_error fields i = Some (nm, d) ->
  lookup nm (init_spec V fields args) = Some (match nth i args None with Some v => v | None => d end).
Proof. exact constructed_field_is_argument_or_default. Qed.
(* constructing from positional / keyword values = assigning those fields on a default instance: every name reads the same.
   Distinct names are needed (repeated_names_break_it below) - and the library admits a repeated `_`: known finding *)
Theorem construction_is_default_then_assignment : forall V (fields : list (string * V)) args, NoDup (map fst fields) -> forall k,
  lookup k (init_spec V fields args)
  = lookup k (fold_left (step_assign V args) (combine (seq 0 (length fields)) fields) (init_spec V fields [])).
Proof. exact construction_is_default_then_assignment. Qed.
Theorem assignment_then_read : forall V (l : list (string * V)) nm v k,
  lookup k (set_attr V l nm v) = if String.eqb k nm then Some v else lookup k l.
Proof. exact lookup_set_attr. Qed.
Example repeated_names_break_it :
  lookup "x" (init_spec Z [("x", 0%Z); ("x", 0%Z)] [Some 7%Z; None]) = Some 0%Z /\
  lookup "x" (fold_left (step_assign Z [Some 7%Z; None]) (combine (seq 0 2) [("x", 0%Z); ("x", 0%Z)]) (init_spec Z [("x", 0%Z); ("x", 0%Z)] [])) = Some 7%Z.
Proof. vm_compute. split; reflexivity. Qed.

Print Assumptions constructed_field_is_argument_or_default.
Print Assumptions construction_is_default_then_assignment.
(* unions get another template (object.__setattr__ with the member names as string constants): it stores the same *)
Theorem union_construction_assigns_arguments_or_defaults : forall V (fields : list (string * V)) args,
  run_init V (generate_union_init V fields) args = Ok (init_spec V fields args).
Proof. exact union_init_assigns_arguments_or_defaults. Qed.
Print Assumptions union_construction_assigns_arguments_or_defaults.
(* T(v1, ..., vk) with k <= number of fields: bound to the first k parameters, stored by __init__, read back as value-or-default; more
   values than fields are a TypeError *)
Theorem positional_construction : forall V (fields : list (string * V)) pos, length pos <= length fields -> NoDup (map fst fields) ->
  exists args, bind_args V (generate_init V fields) pos [] = Ok args /\
    exists attrs, run_init V (generate_init V fields) args = Ok attrs /\
    forall i nm d, nth_error fields i = Some (nm, d) -> lookup nm attrs = Some (match nth i pos None with Some v => v | None => d end).
Proof. exact positional_construction. Qed.
Theorem too_many_positional_values_are_rejected : forall V (fields : list (string * V)) pos kw, length fields < length pos ->
  bind_args V (generate_init V fields) pos kw = Err EType.
Proof. exact too_many_positional_values_are_rejected. Qed.
(* T(name=v, ...) with distinct keywords that name fields, in any order: every field reads back as the value of its keyword, or as the
   type's default when it has none (or None) *)
Theorem keyword_construction : forall V (fields : list (string * V)) kw, NoDup (map fst fields) -> NoDup (map fst kw) ->
  (forall k, In k (map fst kw) -> In k (map fst fields)) ->
  exists args, bind_args V (generate_init V fields) [] kw = Ok args /\
    exists attrs, run_init V (generate_init V fields) args = Ok attrs /\
    forall i nm d, nth_error fields i = Some (nm, d) ->
      lookup nm attrs = Some (match lookup nm kw with Some (Some v) => v | _ => d end).
Proof. exact keyword_construction. Qed.
Print Assumptions keyword_construction.
(* T(v1, ..., vk, name=v, ...): positional values fill the first k parameters, keywords the ones they name; a keyword may not name a
   parameter a positional value already filled (as_keywords names pos = the first k names paired with the positional values) *)
Theorem mixed_construction : forall V (fields : list (string * V)) pos kw, NoDup (map fst fields) -> length pos <= length fields ->
  NoDup (map fst (as_keywords V (map fst fields) pos ++ kw)) -> (forall k, In k (map fst kw) -> In k (map fst fields)) ->
  exists args, bind_args V (generate_init V fields) pos kw = Ok args /\
    exists attrs, run_init V (generate_init V fields) args = Ok attrs /\
    forall i nm d, nth_error fields i = Some (nm, d) ->
      lookup nm attrs = Some (match lookup nm (as_keywords V (map fst fields) pos ++ kw) with Some (Some v) => v | _ => d end).
Proof. exact mixed_construction. Qed.
Print Assumptions mixed_construction.
Print Assumptions positional_construction.
(* consequences used by callers: == is an equivalence on the instances of a class whenever the comparison of field values is one, and a
   single field with an unequal value makes two instances unequal *)
Theorem structure_equality_is_an_equivalence : forall V (veqb : V -> V -> bool) fields,
  (forall x, veqb x x = true) -> (forall x y, veqb x y = true -> veqb y x = true) ->
  (forall x y z, veqb x y = true -> veqb y z = true -> veqb x z = true) ->
  (forall a, has_fields V a fields -> run_eq V veqb (generate_eq V fields) a a = Ok true) /\
  (forall a b, has_fields V a fields -> has_fields V b fields ->
     run_eq V veqb (generate_eq V fields) a b = Ok true -> run_eq V veqb (generate_eq V fields) b a = Ok true) /\
  (forall a b c, has_fields V a fields -> has_fields V b fields -> has_fields V c fields ->
     run_eq V veqb (generate_eq V fields) a b = Ok true -> run_eq V veqb (generate_eq V fields) b c = Ok true ->
     run_eq V veqb (generate_eq V fields) a c = Ok true).
Proof.
  intros V veqb fields R S T. split; [intros a Ha; exact (eq_reflexive V veqb fields a R Ha)|].
  split; [intros a b; exact (eq_symmetric V veqb fields a b S) | intros a b c; exact (eq_transitive V veqb fields a b c T)].
Qed.
Theorem changing_one_field_makes_unequal : forall V (veqb : V -> V -> bool) fields (a b : inst V) f,
  has_fields V a fields -> has_fields V b fields -> In f fields ->
  (exists d, veqb (field_of V a f d) (field_of V b f d) = false) -> run_eq V veqb (generate_eq V fields) a b <> Ok true.
Proof. exact changing_one_field_makes_unequal. Qed.
Print Assumptions structure_equality_is_an_equivalence.
Print Assumptions equal_exactly_when_same_type_and_all_fields_equal.
Print Assumptions equal_instances_hash_equally.
Print Assumptions falsy_exactly_when_all_fields_are.
Print Assumptions construction_assigns_arguments_or_defaults.
Print Assumptions generated_eq_is_fieldwise.
Print Assumptions instances_of_different_types_are_never_equal.

(* non-vacuity: fields named like the placeholders and the builtins the templates use *)
Example ex_methods : let fs := ["_1"; "hash"; "_0"; "any"]%string in
  let a := mkInst 1 [("_1", 1); ("hash", 0); ("_0", 7); ("any", 0)]%string%Z in
  let b := mkInst 1 [("_1", 2); ("hash", 0); ("_0", 7); ("any", 0)]%string%Z in
  run_eq Z Z.eqb (generate_eq Z fs) a b = Ok false /\ run_eq Z Z.eqb (generate_eq Z fs) a a = Ok true /\
  run_bool Z zt (generate_bool Z fs) a = Ok true /\ run_bool Z zt (generate_bool Z fs) (mkInst 1 [("_1", 0); ("hash", 0); ("_0", 0); ("any", 0)]%string%Z) = Ok false /\
  run_init Z (generate_init Z [("x", 0); ("c", 5)]%string%Z) [None; Some 9%Z] = Ok [("x", 0); ("c", 9)]%string%Z /\
  (do args <- bind_args Z (generate_init Z [("x", 0); ("c", 5)]%string%Z) [Some 3%Z] [("c"%string, None)]; run_init Z (generate_init Z [("x", 0); ("c", 5)]%string%Z) args)
    = Ok [("x", 3); ("c", 5)]%string%Z.
Proof. vm_compute. repeat split; reflexivity. Qed.
