(* C17 — structure values: local assignment. *)
From VF Require Import Model.Writer Proofs.SizeProps Proofs.RoundTrip Proofs.ValueRoundTrip Proofs.AssignProps Gen.GeneratedOk.
Open Scope string_scope. Open Scope list_scope. Open Scope Z_scope.

(* __eq__ / __hash__ / __bool__ / __init__ are Python methods generated per field count and patched with the field names; they are
   not modelled (DESIGN.md 10.2) and are decided by the oracle over many classes sharing a field count.  What is proved is the
   byte-level clause: for every packed structure of plain fields fs1 ++ f :: fs2 with distinct names whose field values dump to their
   declared sizes (`sized`: true of all typed values, see typed_values_have_declared_size), assigning f changes, in the dumped
   bytes, exactly the bytes of f: the dump before is a ++ old ++ b, the dump after is a ++ new ++ b, with |old| = |new| = sizeof(f). *)
Theorem assign_changes_only_that_field : forall c nm fs1 f fs2 vals sz sz' x wpos bs bs' n,
  let fs := fs1 ++ f :: fs2 in
  let vals' := set_field (f_name f) x vals in
  Forall (fun g => f_bits g = None /\ f_off g = None) fs -> NoDup (map f_name fs) ->
  Forall (fun g => sized c (fun g => write_ty c (f_ty g)) vals g /\ sized c (fun g => write_ty c (f_ty g)) vals' g) fs ->
  ty_size c (f_ty f) = Some n ->
  write_ty c (TStruct nm fs false) (VStruct vals sz) wpos = Ok bs ->
  write_ty c (TStruct nm fs false) (VStruct vals' sz') wpos = Ok bs' ->
  exists a old new b, bs = a ++ old ++ b /\ bs' = a ++ new ++ b /\ zlen old = n /\ zlen new = n.
Proof. exact assign_is_local. Qed.
Theorem typed_values_have_declared_size : forall c, endian_ok (c_endian c) -> forall t, flat t = true -> rt_ty c t = true ->
  forall v wpos bs n, has_ty c t v -> write_ty c t v wpos = Ok bs -> ty_size c t = Some n -> zlen bs = n.
Proof. exact typed_write_has_size. Qed.
(* the dump of such a structure is the concatenation of its fields' dumps *)
Theorem struct_dump_is_concatenation : forall c (W : field -> wfn) vals wstart fs, Forall (fun f => f_bits f = None /\ sized c W vals f) fs ->
  forall off offs, offs_agree c off fs offs -> forall out, (forall x, off = Some x -> zlen out = x) ->
  wstruct_loop c false wstart vals (map (fun f => (wmeta_of c f, W f)) fs) offs out wb_empty
  = do chs <- chunks_of W vals wstart fs (zlen out); Ok (out ++ List.concat chs, wb_empty).
Proof. exact wloop_is_chunks. Qed.

Print Assumptions assign_changes_only_that_field.
Print Assumptions typed_values_have_declared_size.

Definition ex_cfg := mkCfg "<" (PInt 8 false true) 8 [] [].
Definition fa := Fld "a" false (TPrim (PInt 1 false true) 1) None None.
Definition fb := Fld "b" false (TPrim (PInt 2 false true) 2) None None.
Definition fc := Fld "c" false (TArr (TPrim PChar 1) (LFixed 2)) None None.
Example ex_assign : let t := TStruct "s" [fa; fb; fc] false in
  dumps ex_cfg t (VStruct [("a", VInt 1); ("b", VInt 2); ("c", VBytes [104; 105])] []) = Ok [1; 2; 0; 104; 105] /\
  dumps ex_cfg t (VStruct (set_field "b" (VInt 772) [("a", VInt 1); ("b", VInt 2); ("c", VBytes [104; 105])]) []) = Ok [1; 4; 3; 104; 105].
Proof. vm_compute. split; reflexivity. Qed.
