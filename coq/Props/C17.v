(* C17 — structure values. (theorems added by Proofs/ValueProps.v) *)
From VF Require Import Model.Writer Gen.GeneratedOk.
