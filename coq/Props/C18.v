(* C18 — incremental construction. (theorems added by Proofs/LayoutIdem.v) *)
From VF Require Import Model.Writer Proofs.LayoutCorrect Gen.GeneratedOk.
