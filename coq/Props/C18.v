(* C18 — incrementally built structures equal the one-shot definition. *)
From Coq Require Import Lia.
From VF Require Import Model.Writer Model.Compiler Proofs.LayoutCorrect Proofs.CommitProps Proofs.CommitCompiled Gen.GeneratedOk.
Open Scope string_scope. Open Scope list_scope. Open Scope Z_scope.

(* The layout loop (StructureMetaType._calculate_size_and_offsets) run over fields that already carry the offsets an earlier run
   computed reproduces those offsets and the same final state — for every field list (plain, dynamic and bit fields, packed or
   aligned with power-of-two alignments) and every starting state. *)
Theorem layout_idempotent : forall c al fs, fresh fs -> aligns_ok c al fs ->
  forall st offs st', layout_go c al fs st = Ok (offs, st') -> layout_go c al (set_offsets fs offs) st = Ok (offs, st').
Proof. exact layout_go_idem. Qed.
(* Committing a prefix and then laying out (prefix with its offsets) ++ (new fields) is laying out the whole list *)
Theorem layout_incremental : forall c al a b la, fresh a -> aligns_ok c al a ->
  layout_struct c al a = Ok la -> layout_struct c al (set_offsets a (l_offs la) ++ b) = layout_struct c al (a ++ b).
Proof. exact commit_then_extend. Qed.
(* Every way of splitting a field list into add_field/commit steps — a commit after each field, after batches, or once — ends with exactly
   the fields and offsets (and the same error, if the definition is rejected) of the one-shot definition: nothing of an intermediate state survives *)
Theorem every_splitting_is_oneshot : forall c al chunks, chunks <> [] -> fresh (List.concat chunks) -> aligns_ok c al (List.concat chunks) ->
  build c al [] chunks = oneshot c al (List.concat chunks).
Proof. exact incremental_is_oneshot. Qed.

(* the COMPILED reader: the class as it stands after any sequence of add_field / commit steps (its fields carry the offsets of the earlier commits, the
   generator runs again at the last commit) compiles to the plan of the one-shot definition, and the generated reader returns what the one-shot
   class's generated reader returns, on every stream and position *)
Theorem plan_after_commits_is_the_oneshot_plan : forall c al chunks F, chunks <> [] -> fresh (List.concat chunks) -> aligns_ok c al (List.concat chunks) ->
  build c al [] chunks = Ok F -> compile_plan c al F = compile_plan c al (List.concat chunks).
Proof. exact plan_after_commits_is_oneshot_plan. Qed.
Theorem compiled_reader_after_commits_is_the_oneshot_reader : forall c fuel al chunks F, chunks <> [] -> fresh (List.concat chunks) -> aligns_ok c al (List.concat chunks) ->
  build c al [] chunks = Ok F -> forall s pos, read_compiled c fuel al F s pos = read_compiled c fuel al (List.concat chunks) s pos.
Proof. exact compiled_reader_after_commits_is_oneshot. Qed.

Print Assumptions plan_after_commits_is_the_oneshot_plan.
Print Assumptions compiled_reader_after_commits_is_the_oneshot_reader.
Print Assumptions layout_idempotent.
Print Assumptions layout_incremental.
Print Assumptions every_splitting_is_oneshot.

(* non-vacuity: bit fields, a dynamic array and aligned members, split three ways *)
Definition ex_cfg := mkCfg "<" (PInt 8 false true) 8 [] [].
Definition u8 := TPrim (PInt 1 false true) 1.
Definition u32 := TPrim (PInt 4 false true) 4.
Definition f1 := Fld "a" false u8 (Some 3) None.
Definition f2 := Fld "b" false u8 (Some 5) None.
Definition f3 := Fld "w" false u32 None None.
Definition f4 := Fld "n" false u8 None None.
Definition f5 := Fld "d" false (TArr (TPrim (PInt 2 false true) 2) (LExpr ["n"] false)) None None.
Definition f6 := Fld "t" false u32 None None.
Example ex_hyp : fresh [f1; f2; f3; f4; f5; f6] /\ aligns_ok ex_cfg true [f1; f2; f3; f4; f5; f6].
Proof.
  split; [repeat constructor|]. intros _.
  repeat (apply Forall_cons; [first [exists 0; split; [lia|reflexivity] | exists 1; split; [lia|reflexivity] | exists 2; split; [lia|reflexivity]]|]). apply Forall_nil.
Qed.
Example ex_splits :
  build ex_cfg true [] [[f1]; [f2]; [f3]; [f4]; [f5]; [f6]] = oneshot ex_cfg true [f1; f2; f3; f4; f5; f6] /\
  build ex_cfg true [] [[f1; f2; f3]; [f4; f5; f6]] = oneshot ex_cfg true [f1; f2; f3; f4; f5; f6] /\
  option_map (map f_off) (match oneshot ex_cfg true [f1; f2; f3; f4; f5; f6] with Ok x => Some x | Err _ => None end)
    = Some [Some 0; None; Some 4; Some 8; Some 10; None].
Proof. vm_compute. repeat split. Qed.
Example ex_compiled : exists F p, build ex_cfg true [] [[f1; f2]; [f3]; [f4; f5; f6]] = Ok F /\ compile_plan ex_cfg true F = Ok p /\
  compile_plan ex_cfg true [f1; f2; f3; f4; f5; f6] = Ok p /\
  read_compiled ex_cfg 50 true F [255; 0; 0; 0; 1; 2; 3; 4; 2; 0; 7; 0; 8; 0; 0; 0; 9; 9; 9; 9] 0 =
  read_compiled ex_cfg 50 true [f1; f2; f3; f4; f5; f6] [255; 0; 0; 0; 1; 2; 3; 4; 2; 0; 7; 0; 8; 0; 0; 0; 9; 9; 9; 9] 0 /\
  exists v, read_compiled ex_cfg 50 true F [255; 0; 0; 0; 1; 2; 3; 4; 2; 0; 7; 0; 8; 0; 0; 0; 9; 9; 9; 9] 0 = Ok (v, 20).
Proof. eexists. eexists. split; [vm_compute; reflexivity|]. split; [vm_compute; reflexivity|]. split; [vm_compute; reflexivity|]. split; [vm_compute; reflexivity|]. eexists. vm_compute. reflexivity. Qed.
