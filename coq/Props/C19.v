(* C19 — Utilities: hexdump is lossless, colour is cosmetic, pack/unpack/swap are inverses. *)
From VF Require Import Model.Hexdump Model.Codec Proofs.HexdumpCorrect Proofs.CodecCorrect Gen.GeneratedOk.
Open Scope string_scope. Open Scope list_scope. Open Scope Z_scope.

(* The text of the dump (colour pieces removed) is, for EVERY palette, the specification rows: prefix, the
   8-digit running offset, sixteen two-digit cells (blank beyond the data) and the printable column. *)
Theorem hexdump_text_is_spec : forall normal data pal off prefix,
  map text_only (hexdump_rows normal data pal off prefix) = spec_rows (S (length data / 16)) prefix off data.
Proof. exact hexdump_text. Qed.
(* a colour palette changes nothing but the inserted colour codes *)
Theorem palette_cosmetic : forall normal data pal off prefix,
  map text_only (hexdump_rows normal data (Some pal) off prefix) = map text_only (hexdump_rows normal data None off prefix).
Proof. exact palette_only_colours. Qed.
(* the rows partition the data: every byte once, in order, sixteen per row, row k at offset off + 16k *)
Theorem hexdump_lossless : forall data off,
  let chunks := spec_chunks (S (length data / 16)) off data in
  concat (map snd chunks) = data /\
  forall k o c, nth_error chunks k = Some (o, c) -> o = off + 16 * Z.of_nat k /\ c = firstn 16 (skipn (16 * k) data) /\ c <> [].
Proof. exact hexdump_partition. Qed.
Theorem hexdump_rows_show_chunks : forall fuel prefix off data,
  spec_rows fuel prefix off data =
  map (fun '(o, chunk) => [T prefix; T (hex08 o); T "  "] ++ cells_text 0 (take16 16 chunk) ++ [T "  "] ++ cells_chars (take16 16 chunk))
      (spec_chunks fuel off data).
Proof. exact spec_rows_chunks. Qed.
Theorem hex_cell_injective : forall a b, 0 <= a < 256 -> 0 <= b < 256 -> hex2 a = hex2 b -> a = b.
Proof. exact hex2_injective. Qed.

(* pack / unpack are mutual inverses agreeing with two's complement in the requested byte order *)
Theorem pack_then_unpack : forall v s e bs, (e = LE \/ e = BE) -> 0 < s -> s mod 8 = 0 ->
  u_pack v (Some s) e = Ok bs -> u_unpack bs (Some s) e (v <? 0) = Ok v.
Proof. exact pack_unpack. Qed.
Theorem unpack_then_pack : forall e signed bs, (e = LE \/ e = BE) -> Bytes bs ->
  int_to_bytes e (length bs) signed (int_from_bytes e signed bs) = Ok bs.
Proof. exact int_bytes_roundtrip. Qed.
Theorem swap_twice_is_identity : forall v s w, 0 <= v -> 0 < s -> s mod 8 = 0 -> u_swap v s = Ok w -> u_swap w s = Ok v.
Proof. exact swap_involutive. Qed.

Print Assumptions hexdump_text_is_spec.
Print Assumptions palette_cosmetic.
Print Assumptions hexdump_lossless.
Print Assumptions pack_then_unpack.
Print Assumptions swap_twice_is_identity.

Example ex_swap : u_swap 4660 16 = Ok 13330 /\ u_swap 13330 16 = Ok 4660.
Proof. vm_compute. split; reflexivity. Qed.
Example ex_dump : hexdump_string "N" [72; 105; 0; 255] None 16 "> " =
  "> 00000010  48 69 00 ff                                        Hi..".
Proof. vm_compute. reflexivity. Qed.
