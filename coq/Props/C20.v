(* C20 — generated type stubs name exactly the loaded definitions (partial: Python's concrete syntax is validated, see the manifest). *)
From VF Require Import Model.Stubgen Model.TypeSpec Proofs.StubCorrect Gen.Generated Gen.GeneratedOk.
Open Scope string_scope. Open Scope list_scope.

(* the declaration skeleton declares every user typedef under its name, in table order, and nothing else *)
Theorem stub_declares_all_and_only : forall builtin tds, first_named_by_class builtin [] tds = true ->
  map decl_name (stub_decls builtin tds) = map td_key tds.
Proof. exact stub_declares_exactly. Qed.
Theorem stub_declares_a_class_once : forall builtin tds seen n k, In (DClass n k) (stub_go builtin seen tds) -> mem_str n seen = false.
Proof. exact stub_class_once. Qed.
(* hints print a class's __name__: for every built-in type that is the name it is registered under *)
Theorem builtin_class_names_are_their_keys : class_names_match type_table = true.
Proof. vm_compute. reflexivity. Qed.

Print Assumptions stub_declares_all_and_only.

Example ex_stub : stub_decls ["uint32"] [mkTD "_s" "_s" KdStruct; mkTD "s_t" "_s" KdStruct; mkTD "DW" "uint32" KdGeneric; mkTD "arr_t" "uint8[4]" KdArrayOrPointer; mkTD "E" "E" KdEnum]
  = [DClass "_s" KdStruct; DAlias "s_t" "_s"; DAlias "DW" "uint32"; DAlias "arr_t" "uint8[4]"; DClass "E" KdEnum].
Proof. reflexivity. Qed.
