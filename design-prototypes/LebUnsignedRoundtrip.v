(* Feasibility sketch written during the design phase; NOT part of the verification machinery.
   Shows that the LEB128 reader/writer loops (unsigned case) round-trip for every n >= 0. *)
From Coq Require Import ZArith List Bool Lia ZifyBool.
Import ListNotations.
Open Scope Z_scope.
Ltac Zify.zify_post_hook ::= Z.to_euclidean_division_equations.
Arguments Z.modulo : simpl never. Arguments Z.div : simpl never. Arguments Z.pow : simpl never. Arguments Z.add : simpl never. Arguments Z.mul : simpl never. Arguments Z.ltb : simpl never. Arguments Z.eqb : simpl never.

(* bytes are Z in [0,256) *)
(* LEB128._write, unsigned: loop on data; fuel-based, fuel = number of 7-bit groups *)
Fixpoint uenc (fuel: nat) (n: Z) : option (list Z) :=
  match fuel with O => None | S f =>
    let byte := n mod 128 in let n' := n / 128 in
    if n' =? 0 then Some [byte] else option_map (cons (128 + byte)) (uenc f n')
  end.
(* LEB128._read: structural on input *)
Fixpoint udec_go (bs: list Z) (acc shift: Z) : option (Z * list Z) :=
  match bs with
  | [] => None
  | b :: rest => let acc' := acc + (b mod 128) * 2 ^ shift in
                 if b <? 128 then Some (acc', rest) else udec_go rest acc' (shift + 7)
  end.
Definition udec bs := udec_go bs 0 0.

Lemma udec_go_enc : forall fuel n bs rest acc shift, 0 <= n -> 0 <= shift ->
  uenc fuel n = Some bs -> udec_go (bs ++ rest) acc shift = Some (acc + n * 2 ^ shift, rest).
Proof.
  induction fuel as [|f IH]; intros n bs rest acc shift Hn Hs H; [discriminate|].
  simpl in H. destruct (n / 128 =? 0) eqn:E.
  - inversion H; subst; clear H. cbn [app udec_go].
    assert (n mod 128 <? 128 = true) by lia. rewrite H.
    assert (n mod 128 mod 128 = n) by lia. rewrite H0. reflexivity.
  - destruct (uenc f (n / 128)) as [bs'|] eqn:E'; [|discriminate]. inversion H; subst; clear H.
    cbn [app udec_go]. assert (128 + n mod 128 <? 128 = false) by lia. rewrite H.
    rewrite (IH (n/128) bs' rest _ (shift + 7)); try lia; [|exact E'].
    f_equal. f_equal.
    assert ((128 + n mod 128) mod 128 = n mod 128) by lia. rewrite H0.
    rewrite Z.pow_add_r by lia. change (2^7) with 128.
    rewrite (Z.div_mod n 128) at 3 by lia. ring.
Qed.

Theorem uleb_roundtrip fuel n bs rest : 0 <= n -> uenc fuel n = Some bs -> udec (bs ++ rest) = Some (n, rest).
Proof. intros Hn H. unfold udec. rewrite (udec_go_enc fuel n bs rest 0 0 Hn ltac:(lia) H). f_equal. f_equal. rewrite Z.pow_0_r. lia. Qed.
Print Assumptions uleb_roundtrip.
