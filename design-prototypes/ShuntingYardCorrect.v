(* Feasibility sketch written during the design phase; NOT part of the verification machinery.
   Token-level model of Expression.evaluate (operators, unary ops, parentheses, numbers) and the proof that
   it computes the value of every parse tree of the stratified C grammar. *)
From Coq Require Import ZArith List Bool Lia.
Import ListNotations.
Open Scope Z_scope.

Inductive bop := BOr | BXor | BAnd | BShl | BShr | BAdd | BSub | BMul | BDiv | BMod.
Inductive uop := UNeg | UInv.
Definition bprec (b: bop) : nat :=
  match b with BOr => 0 | BXor => 1 | BAnd => 2 | BShl | BShr => 3 | BAdd | BSub => 4 | BMul | BDiv | BMod => 5 end%nat.
Definition bapply (b: bop) (x y: Z) : option Z :=
  match b with
  | BOr => Some (Z.lor x y) | BXor => Some (Z.lxor x y) | BAnd => Some (Z.land x y)
  | BShl => if y <? 0 then None else Some (Z.shiftl x y)
  | BShr => if y <? 0 then None else Some (Z.shiftr x y)
  | BAdd => Some (x + y) | BSub => Some (x - y) | BMul => Some (x * y)
  | BDiv => if y =? 0 then None else Some (x / y)
  | BMod => if y =? 0 then None else Some (x mod y)
  end.
Definition uapply (u: uop) (x: Z) : Z := match u with UNeg => - x | UInv => Z.lnot x end.

Inductive tok := TNum (z: Z) | TB (b: bop) | TU (u: uop) | TL | TR.
Inductive sitem := SB (b: bop) | SU (u: uop) | SL.
Definition state := (list sitem * list Z)%type.

Definition apply_item (i: sitem) (q: list Z) : option (list Z) :=
  match i, q with
  | SU u, x :: q => Some (uapply u x :: q)
  | SB b, y :: x :: q => match bapply b x y with Some v => Some (v :: q) | None => None end
  | _, _ => None
  end.
Definition sprec (i: sitem) : option nat :=
  match i with SB b => Some (bprec b) | SU _ => Some 6%nat | SL => None end.

Fixpoint reduce (r: nat) (s: list sitem) (q: list Z) : option state :=
  match s with
  | [] => Some ([], q)
  | i :: s' =>
    match sprec i with
    | None => Some (s, q)
    | Some p => if (r <=? p)%nat
                then match apply_item i q with Some q' => reduce r s' q' | None => None end
                else Some (s, q)
    end
  end.

Definition step (t: tok) (st: state) : option state :=
  let (s, q) := st in
  match t with
  | TNum z => Some (s, z :: q)
  | TU u => Some (SU u :: s, q)
  | TB b => match reduce (bprec b) s q with Some (s', q') => Some (SB b :: s', q') | None => None end
  | TL => Some (SL :: s, q)
  | TR => match reduce 0%nat s q with
          | Some (SL :: s', q') => Some (s', q')
          | _ => None end
  end.
Fixpoint run (ts: list tok) (st: state) : option state :=
  match ts with [] => Some st | t :: ts' => match step t st with Some st' => run ts' st' | None => None end end.

(* end of input: pop everything; '(' left over is an error; exactly one value must remain *)
Definition finish (st: state) : option Z :=
  match reduce 0%nat (fst st) (snd st) with
  | Some ([], [v]) => Some v
  | _ => None
  end.
Definition eval (ts: list tok) : option Z :=
  match run ts ([], []) with Some st => finish st | None => None end.

Inductive expr := ENum (z: Z) | EPar (e: expr) | EUn (u: uop) (e: expr) | EBin (b: bop) (l r: expr).
Fixpoint wf (p: nat) (e: expr) : bool :=
  match e with
  | ENum _ => true | EPar e => wf 0 e
  | EUn _ e => (p <=? 6)%nat && wf 6 e
  | EBin b l r => (p <=? bprec b)%nat && wf (bprec b) l && wf (S (bprec b)) r
  end.
Fixpoint flatten (e: expr) : list tok :=
  match e with
  | ENum z => [TNum z] | EPar e => TL :: flatten e ++ [TR]
  | EUn u e => TU u :: flatten e
  | EBin b l r => flatten l ++ TB b :: flatten r
  end.
Fixpoint denote (e: expr) : option Z :=
  match e with
  | ENum z => Some z | EPar e => denote e
  | EUn u e => option_map (uapply u) (denote e)
  | EBin b l r => match denote l, denote r with Some x, Some y => bapply b x y | _, _ => None end
  end.

Lemma run_app ts1 ts2 st : run (ts1 ++ ts2) st = match run ts1 st with Some st' => run ts2 st' | None => None end.
Proof. revert st; induction ts1 as [|t ts IH]; intros st; simpl; [reflexivity|]. destruct (step t st); auto. Qed.

Definition guard (p: nat) (s: list sitem) : Prop :=
  (6 <= p)%nat \/ match s with [] => True | i :: _ => match sprec i with None => True | Some q => (q < p)%nat end end.

Lemma reduce_guard r p s q : guard p s -> (p <= r)%nat -> (r <= 5)%nat -> reduce r s q = Some (s, q).
Proof.
  intros [H|H] Hpr Hr; [lia|].
  destruct s as [|i s]; simpl; [reflexivity|].
  destruct (sprec i) as [pi|]; [|reflexivity].
  destruct (Nat.leb_spec r pi); [lia|reflexivity].
Qed.

Definition bind {A B} (o: option A) (f: A -> option B) := match o with Some a => f a | None => None end.

(* Main lemma: after running the tokens of e, reducing at any level r <= p is the same as
   having pushed the value of e. Stated with options to cover evaluation errors. *)
Lemma main : forall e p, wf p e = true -> forall s q r, guard p s -> (r <= p)%nat ->
  bind (run (flatten e) (s, q)) (fun st => reduce r (fst st) (snd st)) =
  bind (denote e) (fun v => reduce r s (v :: q)).
Proof.
  induction e as [z|e IH|u e IH|b l IHl r' IHr]; intros p Hwf s q r Hg Hr; simpl in *.
  - reflexivity.
  - (* parenthesised *)
    rewrite run_app. 
    specialize (IH 0%nat Hwf (SL :: s) q 0%nat).
    assert (G: guard 0 (SL :: s)) by (right; simpl; exact I).
    specialize (IH G (le_n _)).
    destruct (run (flatten e) (SL :: s, q)) as [[s1 q1]|] eqn:Erun; simpl in IH.
    + destruct (denote e) as [v|]; simpl in IH |- *.
      * rewrite IH. simpl. reflexivity.
      * rewrite IH. reflexivity.
    + destruct (denote e) as [v|]; simpl in *; [discriminate|reflexivity].
  - (* unary *)
    apply andb_prop in Hwf as [Hp Hw]. apply Nat.leb_le in Hp.
    specialize (IH 6%nat Hw (SU u :: s) q r).
    assert (G: guard 6 (SU u :: s)) by (left; lia).
    specialize (IH G ltac:(lia)). rewrite IH.
    destruct (denote e) as [v|]; simpl; [|reflexivity].
    destruct (Nat.leb_spec r 6); [reflexivity|lia].
  - (* binary *)
    apply andb_prop in Hwf as [Hwf Hwr]. apply andb_prop in Hwf as [Hp Hwl]. apply Nat.leb_le in Hp.
    assert (Hb5: (bprec b <= 5)%nat) by (destruct b; simpl; lia).
    rewrite run_app.
    assert (Gl: guard (bprec b) s).
    { destruct Hg as [Hg|Hg]; [lia|]. right. destruct s as [|i s']; [exact I|]. destruct (sprec i); [lia|exact I]. }
    specialize (IHl (bprec b) Hwl s q (bprec b) Gl (le_n _)).
    destruct (run (flatten l) (s, q)) as [[s1 q1]|] eqn:Erl; simpl in IHl |- *.
    + destruct (denote l) as [vl|]; simpl in IHl.
      * rewrite (reduce_guard (bprec b) (bprec b) s (vl :: q) Gl (le_n _) Hb5) in IHl.
        rewrite IHl.
        assert (Gr: guard (S (bprec b)) (SB b :: s)) by (right; simpl; lia).
        specialize (IHr (S (bprec b)) Hwr (SB b :: s) (vl :: q) r Gr ltac:(lia)).
        rewrite IHr. destruct (denote r') as [vr|]; simpl; [|reflexivity].
        destruct (Nat.leb_spec r (bprec b)); [|lia].
        destruct (bapply b vl vr); reflexivity.
      * rewrite IHl. reflexivity.
    + destruct (denote l) as [vl|]; simpl in IHl; [|reflexivity].
      rewrite (reduce_guard (bprec b) (bprec b) s (vl :: q) Gl (le_n _) Hb5) in IHl. discriminate.
Qed.

Theorem eval_correct e : wf 0 e = true -> eval (flatten e) = denote e.
Proof.
  intros H. unfold eval, finish.
  pose proof (main e 0%nat H [] [] 0%nat (or_intror I) (le_n _)) as M.
  destruct (run (flatten e) ([], [])) as [[s1 q1]|]; simpl in M |- *.
  - rewrite M. destruct (denote e); reflexivity.
  - destruct (denote e); simpl in M; [discriminate|reflexivity].
Qed.
Print Assumptions eval_correct.
