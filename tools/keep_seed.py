#!/venv/bin/python
"""tools/keep_seed.py <src dir> <seed id> <caught: yes|no> <which checks / how>  — store a confirmed seeded change."""
import json, shutil, sys, pathlib
src, sid, caught, how = pathlib.Path(sys.argv[1]), sys.argv[2], sys.argv[3], sys.argv[4]
dst = pathlib.Path("/verif/seeded") / sid
dst.mkdir(parents=True, exist_ok=True)
for f in ("patch.diff", "demo.py"):
    shutil.copy(src / f, dst / f)
meta = json.load(open(src / "meta.json"))
meta.update({"id": sid, "confirmed": "tools/try_seed.sh: demo exits 0 on the clean tree and non-zero with the patch; the 500 existing tests pass with the patch",
             "ran": f"tools/try_seed.sh {dst} {meta.get('property')}", "caught": caught, "caught_by": how})
json.dump(meta, open(dst / "meta.json", "w"), indent=1)
print("kept", dst)
