#!/venv/bin/python
"""Regenerates /verif/MANIFEST.json from the per-property claims below (kept here so the manifest stays valid and current)."""
import json

CLAIMS = {
 "C04": dict(
  text="Machine-checked proof that the offset/size/alignment loop of structure.py (model: Model/Layout.v, a line-by-line transcription incl. the treatment of pre-set offsets and bit-field units) computes exactly the C layout rule for every field list of statically sized members without bit fields (layout_is_c), with the meaning of that rule proved separately: packed = back to back (c_packed_back_to_back), aligned = each member at the next multiple of its power-of-two alignment and nothing smaller works (c_aligned_next_multiple, padding_is_roundup, padding_minimal for the -x & (a-1) bit trick); arrays inherit element alignment, pointers follow the configured pointer type. Sizes/alignments of all built-ins are regenerated from /repo and checked (type_table_ok). Layout, parse and dump of random fixed-size definitions x {packed, aligned} x pointer width x compiled/interpreted are compared with the model inside coqc; an independent Python C-rule calculator and ctypes (platform ABI) judge the implementation; len(T) = sizeof(T) = consumed = dumped is checked on the implementation (the 'sizes agree' clause is validated, its proof over the reader/writer is not yet done: partial for that clause).",
  note="Trusted: Coq kernel + VM; vf/facts.py; vf/structs.py (live class -> Coq ty translation; offsets are never copied from the class, the model recomputes them); ctypes as the C ABI oracle.",
  technique="Coq proof (induction on the field list; Z.land_ones for the padding trick) + regenerated type table + vm_compute correspondence + ctypes oracle", ref="5 (C04)"),
 "C10": dict(
  text="Machine-checked proof (Coq 8.16) on a hand-written model of expression.py: eval_correct (every parse tree of the stratified C grammar evaluates to its denotation over unbounded integers, through the real unary-minus rewriting pass and shunting-yard loops), eval_repeatable (any token list, any history of contexts), minus_classified. Operator/precedence tables, the unary-minus marker and the precedence comparison are regenerated from /repo on every run and re-checked (Gen/GeneratedOk.v); the algorithm is tied by differential execution of the model inside coqc against Expression.evaluate (exhaustive operator pairs/triples, random trees, histories, malformed input). The character-level tokenizer is modelled and validated by that correspondence, not proved.",
  note="Trusted: Coq kernel + VM; vf/facts.py; generator reach; Python int semantics as written in Model/ExprOps.v. Theorems closed under the global context.",
  technique="Coq proof (induction on parse trees; shunting-yard reduce lemma) + regenerated-fact obligations + vm_compute correspondence", ref="5 (C10)"),
 "C05": dict(
  text="Machine-checked proofs that the integer codecs are positional / two's complement in the stated byte order and exact inverses for every width (int_encode_then_decode, int_decode_then_encode, int_decode_in_range, int_out_of_range_rejected, big endian = reversed little endian), that the library's LEB128 writer and reader loops round-trip for every integer (signed and unsigned), and that UTF-16 encode/decode round-trips with surrogate pairs in both byte orders. The live type table (every built-in and alias: kind, size, signedness, alignment, pack character, alias target), ENDIANNESS_MAP, the wchar encoding map and the resolve bound are regenerated from /repo on every run and checked against an independent C-ABI table. Behaviour of every type name x {<,>,!} x endianness-switch histories is compared with the model inside coqc; floats are compared by exact rational value against an arithmetic IEEE-754 decoding.",
  note="Trusted: Coq kernel + VM; vf/facts.py; CPython's struct / int.from_bytes / utf-16 codecs are modelled by their documented meaning (Model/Codec.v) and exercised by the correspondence; float value domain = bit pattern (NaN payloads not compared). Native byte orders @ = outside the domain.",
  technique="Coq proof (arithmetic on Z, induction on byte lists / 7-bit groups) + regenerated type/endianness tables + vm_compute correspondence", ref="5 (C05)"),
 "C19": dict(
  text="Machine-checked proofs on a model of utils._hexdump's cell/row/palette state machine: for every data, offset, prefix and palette the text of the dump equals the specification rows (hexdump_text_is_spec), a palette changes nothing but inserted colour pieces (palette_cosmetic), the rows partition the data sixteen per row with offsets off+16k (hexdump_lossless), two hex digits determine the byte; pack/unpack/swap laws (pack_then_unpack, unpack_then_pack, swap_twice_is_identity) from the integer codec theorems. PRINTABLE, COLOR_NORMAL, row width and ENDIANNESS_MAP are regenerated and checked. The model is compared as exact strings with hexdump() on every length 0..80 x palettes x offsets x prefixes, and pack/unpack/swap on boundary values x all endianness spellings. dumpstruct is checked on the implementation only (oracle over generated structures): partial for that clause.",
  note="Trusted: Coq kernel + VM; vf/facts.py; Python string formatting (08x, 02x) as written in Model/Hexdump.v; dumpstruct is validated, not modelled.",
  technique="Coq proof (induction over cells/rows with arbitrary palette state) + vm_compute string correspondence + implementation oracle for dumpstruct", ref="5 (C19)"),
}

props = [json.loads(l) for l in open('/verif/properties.jsonl')]
checks = []
for pid in sorted(CLAIMS):
    c = CLAIMS[pid]
    checks.append({"property_id": pid, "quick_cmd": f"./check {pid} --tier quick", "thorough_cmd": f"./check {pid} --tier thorough",
                   "evidence_file": f"/verif/evidence/{pid}.json", "replay_cmd_template": f"./check {pid} --replay {{path}}", "engine": "coq-model",
                   "level_claimed": {"category": "proof", "text": c["text"], "design_ref": c["ref"]}, "level_note": c["note"], "technique": c["technique"]})
na = [{"property_id": p["id"], "reason": "not yet built in this revision (in progress; designed in DESIGN.md section 5)"} for p in props if p["id"] not in CLAIMS]
m = {"version": 1, "setup_cmd": "./check --setup",
     "hooks": {"guard": "DISSECT_CSTRUCT_VERIF", "enable": "no hooks are compiled into /repo: checks import /repo's working tree directly (PYTHONPATH=/repo) and observe it from outside; the guard variable is exported by ./check but nothing in /repo reads it",
               "baseline_off_cmd": "cd /repo && /venv/bin/python -m pytest -ra -q -p no:cacheprovider --timeout=900 --continue-on-collection-errors", "source_commits": [], "add_only": True},
     "engines": [{"name": "coq-model", "path": "/verif/coq", "serves_properties": sorted(CLAIMS),
                  "kind_free_text": "Coq 8.16 development: Model/ (executable Gallina model), Proofs/, Props/ (property theorems), Gen/ (facts regenerated from /repo + obligations); driven by /verif/vf (Python, /venv/bin/python)"}],
     "checks": checks, "not_applicable": na,
     "notes": "Repairs of genuine defects are separate 'fix:' commits in /repo, listed in known_findings.json (fixed entries suppress nothing)."}
json.dump(m, open('/verif/MANIFEST.json', 'w'), indent=1)
print("manifest:", len(checks), "claimed,", len(na), "not yet")
