#!/bin/bash
# usage: tools_mkwt.sh <tag>   -> creates /tmp/wt_<tag> (worktree of /repo HEAD) and /tmp/seed_<tag>/
set -e
git -C /repo worktree add -f --detach /tmp/wt_$1 HEAD >/dev/null 2>&1
mkdir -p /tmp/seed_$1
echo /tmp/wt_$1
