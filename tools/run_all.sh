#!/bin/bash
# tools/run_all.sh [seed ...] : runs every claimed check's quick command for the given seeds (default 1), 4 at a time; prints a summary.
cd "$(dirname "$(readlink -f "$0")")/.."
seeds=${@:-1}
props=$(/venv/bin/python -c "import json;print(' '.join(c['property_id'] for c in json.load(open('MANIFEST.json'))['checks']))")
mkdir -p build/runall
for s in $seeds; do
  for p in $props; do echo "$s $p"; done
done | xargs -P 4 -L 1 bash -c 'VERIF_SEED=$0 ./check $1 > build/runall/$1.$0.log 2>&1; echo "seed=$0 $1 rc=$? $(grep -c "^VIOLATION" build/runall/$1.$0.log) violation(s) $(tail -1 build/runall/$1.$0.log | grep -o "done in [0-9.]*s")"'
