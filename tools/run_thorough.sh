#!/bin/bash
# tools/run_thorough.sh : runs every claimed check's thorough command (seed 1), three at a time; prints a summary.
cd "$(dirname "$(readlink -f "$0")")/.."
props=$(/venv/bin/python -c "import json;print(' '.join(c['property_id'] for c in json.load(open('MANIFEST.json'))['checks']))")
mkdir -p build/runall
for p in $props; do echo "$p"; done | xargs -P 3 -L 1 bash -c './check $0 --tier thorough > build/runall/$0.thorough.log 2>&1; echo "thorough $0 rc=$? $(grep -c "^VIOLATION" build/runall/$0.thorough.log) violation(s) $(tail -1 build/runall/$0.thorough.log | grep -o "done in [0-9.]*s")"'
