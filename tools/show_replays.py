#!/venv/bin/python
import json,glob,collections,sys
prop=sys.argv[1]; seen=collections.Counter()
for f in sorted(glob.glob(f'/verif/replays/{prop}-*.json')):
    d=json.load(open(f)); sig=d.get('signature') or d.get('kind')
    seen[sig]+=1
    if seen[sig]>int(sys.argv[2] if len(sys.argv)>2 else 1): continue
    print(f.split('/')[-1], sig, d.get('load_kwargs'), d.get('cstruct_kwargs'))
    print("   DEF:", d.get('definition','').replace('\n',' ')[-420:])
    if d.get('history'): print("   HIST:", d['history'])
    if d.get('ops'): print("   OP:", json.dumps(d['ops'][0])[:700])
    if d.get('kind')=='correspondence': print("   op", str(d.get('op'))[:160], "\n   impl:", str(d.get('implementation'))[:300], "\n   model:", str(d.get('model'))[-500:])
    if d.get('kind') in ('obligation','harness-error'): print("   ", str(d.get('message') or d.get('trace'))[-600:])
print(dict(seen))
