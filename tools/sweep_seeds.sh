#!/bin/bash
# tools/sweep_seeds.sh [seed ids...] : applies every kept seeded change (seeded/<id>/patch.diff) to a private copy of the repository
# ($VP_RUN_REPO when started through `vp run --with-repo`, else a scratch worktree under /tmp that is removed afterwards), runs the
# property's quick check against it and prints one line per seed: caught (VIOLATION lines) / MISSED / patch does not apply.
cd "$(dirname "$(readlink -f "$0")")/.."
R=${VP_RUN_REPO:-}
own=""
if [ -z "$R" ]; then R=/tmp/sweep_repo_$$; git -C /repo worktree add -f --detach "$R" HEAD >/dev/null 2>&1; own=1; fi
ids=${@:-$(ls seeded)}
for id in $ids; do
  d=seeded/$id
  p=$(/venv/bin/python -c "import json;print(json.load(open('$d/meta.json'))['property'])")
  git -C "$R" checkout -q -- . 2>/dev/null
  if ! git -C "$R" apply "$PWD/$d/patch.diff" 2>/dev/null; then echo "$id $p PATCH-DOES-NOT-APPLY"; continue; fi
  PYTHONPATH="$R" /venv/bin/python "$d/demo.py" >/dev/null 2>&1; demo=$?
  out=$(VERIF_REPO="$R" ./check "$p" 2>&1)
  n=$(echo "$out" | grep -c "^VIOLATION")
  nf=$(echo "$out" | grep "^VIOLATION" | grep -vc "no-failing-input-found")
  if [ "$n" -gt 0 ]; then echo "$id $p caught violations=$n with-input=$nf demo-exit=$demo"; else echo "$id $p MISSED demo-exit=$demo"; fi
  git -C "$R" checkout -q -- .
done
[ -n "$own" ] && git -C /repo worktree remove --force "$R"
