#!/bin/bash
# usage: tools/try_seed.sh <seed dir containing patch.diff, demo.py> <Cnn> [more Cnn...]
# Confirms the seed (tests pass with it, demo fails with it / passes without), then runs the checks against it.
d=$1; shift
cd /repo || exit 2
git diff --quiet || { echo "/repo not clean"; exit 2; }
PYTHONPATH=/repo /venv/bin/python $d/demo.py >/dev/null 2>&1; echo "demo on clean tree: exit $?"
git apply $d/patch.diff || { echo "patch does not apply"; exit 2; }
PYTHONPATH=/repo /venv/bin/python $d/demo.py >/dev/null 2>&1; echo "demo on mutated tree: exit $?"
/venv/bin/python -m pytest -q -p no:cacheprovider -x 2>&1 | tail -1
for p in "$@"; do
  (cd /verif && VERIF_SEED=${VERIF_SEED:-1} ./check $p 2>&1 | grep -E "^VIOLATION|KNOWN-FINDING|done in" | head -8)
done
git -C /repo checkout -- .
git -C /repo status --short
