"""Canonicalisation of implementation outcomes into Coq terms of Model/Value.v and Model/Base.v.

Dispatches on type() / isinstance of *classes* only; never calls hasattr/getattr on a value
(Pointer.__getattr__ dereferences, UnionProxy.__getattr__ forwards)."""
from __future__ import annotations

import math
import struct as _struct

from .common import cbool, clist, cpair, cstr, cz


def err_class(e: BaseException) -> str:
    from dissect.cstruct import exceptions as X

    if type(e).__name__ == "Hang":
        return "EOutOfFuel"
    if isinstance(e, EOFError):
        return "EEof"
    if isinstance(e, X.ArraySizeError):
        return "EArraySize"
    if isinstance(e, X.NullPointerDereference):
        return "ENullDeref"
    if isinstance(e, X.ResolveError):
        return "EResolve"
    if isinstance(e, X.ParserError):
        return "EParse"
    if isinstance(e, (X.ExpressionParserError, X.ExpressionTokenizerError)):
        return "EExpr"
    if isinstance(e, (_struct.error, OverflowError)):
        return "ERange"
    if isinstance(e, NotImplementedError):
        return "EUnsupported"
    if isinstance(e, (UnicodeDecodeError, UnicodeEncodeError)):
        return "EDecode"
    if isinstance(e, ZeroDivisionError):
        return "EZeroDiv"
    if isinstance(e, ValueError):
        return "EValue"
    if isinstance(e, TypeError):
        return "EType"
    if isinstance(e, (KeyError, IndexError, AttributeError, NameError)):
        return "EKey"
    return "EOther_" + type(e).__name__


def cerr(e: BaseException) -> str:
    k = err_class(e)
    if k.startswith("EOther_"):
        raise RuntimeError(f"unclassified exception {type(e).__name__}: {e}") from e
    return f"(Err {k})"


def cbytes(b: bytes) -> str:
    return f'(hex "{bytes(b).hex()}")'


def ccps(s: str) -> str:
    return clist((cz(ord(c)) for c in s), "Z")


# ---- floats: exact meaning without going through struct ----
FLOAT_PARAMS = {2: (5, 10), 4: (8, 23), 8: (11, 52)}


def float_of_bits(size: int, bits: int) -> float:
    """IEEE-754 meaning of a bit pattern, computed arithmetically (independent of struct)."""
    eb, mb = FLOAT_PARAMS[size]
    m = bits & ((1 << mb) - 1)
    ex = (bits >> mb) & ((1 << eb) - 1)
    neg = bits >> (mb + eb) & 1
    bias = (1 << (eb - 1)) - 1
    if ex == (1 << eb) - 1:
        v = math.inf if m == 0 else math.nan
    elif ex == 0:
        v = math.ldexp(m, 1 - bias - mb)
    else:
        v = math.ldexp(m + (1 << mb), ex - bias - mb)
    return -v if neg else v


def cfobs(x: float) -> str:
    """Observation of a Python float: NaN / inf / exact rational with the sign of zero."""
    if math.isnan(x):
        return "FoNan"
    if math.isinf(x):
        return f"(FoInf {cbool(x < 0)})"
    num, den = x.as_integer_ratio()
    return f"(FoRat {cz(num)} {cz(den)} {cbool(math.copysign(1.0, x) < 0)})"
