"""Entry point: ./check <Cnn> [--tier quick|thorough] [--replay f] | ./check --setup | ./check --all"""
from __future__ import annotations

import argparse
import importlib
import json
import os
import sys
import traceback

from . import common


def main() -> int:
    ap = argparse.ArgumentParser()
    ap.add_argument("prop", nargs="?")
    ap.add_argument("--tier", default=os.environ.get("VERIF_TIER", "quick"), choices=["quick", "thorough"])
    ap.add_argument("--replay")
    ap.add_argument("--setup", action="store_true")
    a = ap.parse_args()
    seed = int(os.environ.get("VERIF_SEED", "0") or 0)

    if a.setup:
        from . import facts

        common.setup_env()
        facts.regenerate()
        ok, log = common.coq_make(timeout=3000)
        sys.stdout.write(log[-3000:])
        print("setup:", "ok" if ok else "FAILED")
        return 0 if ok else 1

    if not a.prop:
        ap.error("property id required")
    common.setup_env()
    mod = importlib.import_module(f"vf.props.{a.prop}")
    if a.replay:
        return mod.replay(json.load(open(a.replay)))
    run = common.Run(a.prop, a.tier, seed)
    try:
        mod.check(run)
    except Exception:
        # the machinery itself failed: fail closed, but say so (this is not a property verdict)
        traceback.print_exc()
        run.violation({"kind": "harness-error", "trace": traceback.format_exc()}, tag="harness-error", no_input=True)
    return run.finish()


if __name__ == "__main__":
    sys.exit(main())
