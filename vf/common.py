"""Shared plumbing for the checks: paths, environment, Coq build + shard runner, evidence, findings.

Everything here runs under /venv/bin/python with /repo first on sys.path (the working tree, not an
installed copy), PYTHONHASHSEED fixed by ./check.
"""
from __future__ import annotations

import fcntl
import hashlib
import json
import os
import re
import subprocess
import sys
import time
from concurrent.futures import ThreadPoolExecutor
from pathlib import Path

ROOT = Path(__file__).resolve().parent.parent
REPO = Path(os.environ.get("VERIF_REPO", "/repo"))
COQ = ROOT / "coq"
BUILD = ROOT / "build"
EVIDENCE = ROOT / "evidence"
REPLAYS = ROOT / "replays"
GUARD = "DISSECT_CSTRUCT_VERIF"
NCPU = os.cpu_count() or 4


def setup_env() -> None:
    """Make `import dissect.cstruct` resolve to /repo's working tree."""
    os.environ[GUARD] = "1"
    sys.dont_write_bytecode = True
    p = str(REPO)
    if p in sys.path:
        sys.path.remove(p)
    sys.path.insert(0, p)
    already = sys.modules.get("dissect.cstruct")
    if already is None or REPO.resolve() not in Path(getattr(already, "__file__", "/")).resolve().parents:
        # only purge a copy imported from elsewhere: re-importing would duplicate the classes (isinstance / except would miss)
        for m in [m for m in sys.modules if m == "dissect" or m.startswith("dissect.")]:
            del sys.modules[m]
    import dissect.cstruct  # noqa: F401

    f = Path(dissect.cstruct.__file__).resolve()
    if REPO.resolve() not in f.parents:
        raise SystemExit(f"dissect.cstruct imported from {f}, not from {REPO}")


# ----------------------------------------------------------------------------------------------
# Coq term rendering helpers
# ----------------------------------------------------------------------------------------------
def cz(n: int) -> str:
    return f"({n})%Z" if n < 0 else f"{n}%Z"


def cnat(n: int) -> str:
    return f"{n}%nat"


def cstr(s: str) -> str:
    """A Coq string literal for an ASCII string (bytes >= 128 and control chars via the byte list)."""
    if all(32 <= ord(c) < 127 for c in s):
        return '"' + s.replace('"', '""') + '"%string'
    # general: build from ascii codes
    out = "EmptyString"
    for c in reversed(s):
        o = ord(c)
        if o > 255:
            raise ValueError("non latin-1 character in Coq string")
        out = f'(String (Ascii.ascii_of_nat {o}) {out})'
    return out


def chex(b: bytes) -> str:
    return f'(hex "{b.hex()}")'


def clist(items, ty: str | None = None) -> str:
    items = list(items)
    if not items:
        return f"(@nil ({ty}))" if ty else "[]"
    return "[" + "; ".join(items) + "]"


def cbool(b: bool) -> str:
    return "true" if b else "false"


def copt(x, f=lambda v: v) -> str:
    return "None" if x is None else f"(Some {f(x)})"


def cpair(a: str, b: str) -> str:
    return f"({a}, {b})"


# ----------------------------------------------------------------------------------------------
# Coq build and shard execution
# ----------------------------------------------------------------------------------------------
class Lock:
    def __init__(self, name: str):
        BUILD.mkdir(exist_ok=True)
        self.path = BUILD / name

    def __enter__(self):
        self.fh = open(self.path, "w")
        fcntl.flock(self.fh, fcntl.LOCK_EX)
        return self

    def __exit__(self, *a):
        fcntl.flock(self.fh, fcntl.LOCK_UN)
        self.fh.close()


def coq_sources() -> list[str]:
    out = []
    for sub in ("Model", "Gen", "Proofs", "Props"):
        out += sorted(str(p.relative_to(COQ)) for p in (COQ / sub).glob("*.v"))
    return out


def ensure_makefile() -> None:
    mk = COQ / "Makefile"
    srcs = coq_sources()
    stamp = COQ / ".sources"
    want = "\n".join(srcs)
    if mk.exists() and stamp.exists() and stamp.read_text() == want:
        return
    dep = COQ / ".Makefile.d"
    if dep.exists():
        dep.unlink()
    subprocess.run(["coq_makefile", "-f", "_CoqProject", *srcs, "-o", "Makefile"], cwd=COQ, check=True,
                   stdout=subprocess.DEVNULL)
    stamp.write_text(want)


def _limit_mem() -> None:
    # a runaway coqc (e.g. a conversion that blows up after a source change) must fail, not take the machine down
    import resource
    resource.setrlimit(resource.RLIMIT_AS, (24 << 30, 24 << 30))
    # long list/string literals in generated shards make coqc recurse deeply: lift the soft stack limit to the hard one
    _soft, hard = resource.getrlimit(resource.RLIMIT_STACK)
    resource.setrlimit(resource.RLIMIT_STACK, (hard, hard))


def coq_make(targets: list[str] | None = None, timeout: int = 1500, clean: bool = False) -> tuple[bool, str]:
    """Full .vo build (never -vos) of the given targets (default: everything), under a lock."""
    with Lock(".coq.lock"):
        ensure_makefile()
        if clean:
            subprocess.run(["make", "clean"], cwd=COQ, stdout=subprocess.DEVNULL, stderr=subprocess.DEVNULL)
            for p in COQ.rglob("*.vo"):
                p.unlink()
        cmd = ["timeout", str(timeout), "make", f"-j{NCPU}", *(targets or [])]
        p = subprocess.run(cmd, cwd=COQ, stdout=subprocess.PIPE, stderr=subprocess.STDOUT, text=True, preexec_fn=_limit_mem)
        return p.returncode == 0, p.stdout


_ERR_RE = re.compile(r'File "\./([^"]+)", line (\d+), characters')


def locate_failure(log: str) -> dict:
    """Map the first coqc error in a make log to (file, line, enclosing lemma name)."""
    m = _ERR_RE.search(log)
    if not m:
        return {"file": None, "line": None, "lemma": None, "message": log[-2000:]}
    f, line = m.group(1), int(m.group(2))
    lemma = None
    try:
        src = (COQ / f).read_text().splitlines()
        for i in range(min(line, len(src)) - 1, -1, -1):
            mm = re.match(r"\s*(?:Local\s+|Global\s+)?(Lemma|Theorem|Corollary|Example|Fact|Definition|Fixpoint|Remark)\s+([A-Za-z0-9_']+)", src[i])
            if mm:
                lemma = mm.group(2)
                break
    except OSError:
        pass
    tail = log[m.start():][:2000]
    return {"file": f, "line": line, "lemma": lemma, "message": tail}


def parse_assumptions(log: str) -> dict[str, list[str]]:
    """Parse the output of `Print Assumptions` blocks emitted while compiling Props files.

    We print a marker line `(* ASSUMPTIONS thm *)` via `Redirect`-free trick: Props files use
    `Print Assumptions thm.` directly, coqc prints either "Closed under the global context" or
    "Axioms:\n name : type ...".  They are attributed in order of appearance to theorem names
    collected from the file.
    """
    res: dict[str, list[str]] = {}
    blocks = re.split(r"(?=Closed under the global context|Axioms:)", log)
    out = []
    for b in blocks:
        if b.startswith("Closed under the global context"):
            out.append([])
        elif b.startswith("Axioms:"):
            names = re.findall(r"^([A-Za-z_][A-Za-z0-9_.']*)\s*:", b[len("Axioms:"):], flags=re.M)
            out.append(names)
    res["_blocks"] = out  # type: ignore
    return res


def props_assumptions(prop_file: str, timeout: int = 600) -> tuple[bool, list[dict], str]:
    """Compile one Props file (after its dependencies are built) capturing Print Assumptions output."""
    src = (COQ / prop_file).read_text()
    thms = re.findall(r"^Print Assumptions\s+([A-Za-z0-9_']+)\s*\.", src, flags=re.M)
    p = subprocess.run(["timeout", str(timeout), "coqc", "-Q", ".", "VF", "-w",
                        "-notation-overridden,-deprecated-hint-without-locality,-deprecated-instance-without-locality",
                        prop_file],
                       cwd=COQ, stdout=subprocess.PIPE, stderr=subprocess.STDOUT, text=True, preexec_fn=_limit_mem)
    ok = p.returncode == 0
    blocks = parse_assumptions(p.stdout)["_blocks"]
    out = []
    for i, t in enumerate(thms):
        ax = blocks[i] if i < len(blocks) else None
        out.append({"theorem": t, "axioms": ax})
    return ok, out, p.stdout


def count_obligations(files: list[str]) -> int:
    n = 0
    for f in files:
        try:
            src = (COQ / f).read_text()
        except OSError:
            continue
        n += len(re.findall(r"^\s*(?:Local\s+|Global\s+)?(?:Lemma|Theorem|Corollary|Example|Fact|Remark)\s", src, flags=re.M))
    return n


def coq_deps(prop_file: str) -> list[str]:
    """Transitive closure of VF-internal dependencies of a file (by scanning Require lines)."""
    seen: list[str] = []

    def visit(f: str):
        if f in seen:
            return
        seen.append(f)
        try:
            src = (COQ / f).read_text()
        except OSError:
            return
        for m in re.finditer(r"From VF Require (?:Import|Export)\s+((?:[A-Za-z][A-Za-z0-9_]*(?:\.[A-Za-z][A-Za-z0-9_]*)*\s*)+)\.(?:\s|$)", src):
            for mod in m.group(1).split():
                visit(mod.replace(".", "/") + ".v")

    visit(prop_file)
    return seen


SHARD_HEADER = """From VF Require Import {imports}.
Open Scope string_scope. Open Scope list_scope. Open Scope Z_scope.
"""


def run_shards(prop: str, shards: list[str], imports: str, timeout: int = 600) -> tuple[list[list[int]], list[str]]:
    """Each shard body must define `checks : list bool`.  Returns, per shard, the failing indices.

    A shard that fails to compile / times out is reported in the second list (fail closed).
    """
    d = BUILD / "shards" / prop
    d.mkdir(parents=True, exist_ok=True)
    for old in d.glob("*"):
        old.unlink()
    files = []
    for i, body in enumerate(shards):
        f = d / f"shard_{prop}_{i}.v"
        f.write_text(SHARD_HEADER.format(imports=imports) + body +
                     "\nEval vm_compute in (failed checks).\n")
        files.append(f)

    def one(f: Path):
        p = subprocess.run(["timeout", str(timeout), "coqc", "-Q", str(COQ), "VF", "-w", "-all", f.name], cwd=d,
                           stdout=subprocess.PIPE, stderr=subprocess.STDOUT, text=True, preexec_fn=_limit_mem)
        return p.returncode, p.stdout

    results: list[list[int]] = []
    errors: list[str] = []
    with ThreadPoolExecutor(max_workers=NCPU) as ex:
        for f, (rc, out) in zip(files, ex.map(one, files)):
            if rc != 0:
                errors.append(f"{f.name}: rc={rc}: {out[-1500:]}")
                results.append([])
                continue
            m = re.search(r"=\s*(\[.*?\]|nil)\s*:\s*list nat", out, flags=re.S)
            if not m:
                errors.append(f"{f.name}: unparsable output: {out[-500:]}")
                results.append([])
                continue
            results.append([int(x) for x in re.findall(r"\d+", m.group(1))])
    return results, errors


def coq_eval(prop: str, imports: str, body: str, timeout: int = 300) -> str:
    """Evaluate an ad-hoc snippet (used to print the model's outcome for a disagreeing case)."""
    d = BUILD / "shards" / prop
    d.mkdir(parents=True, exist_ok=True)
    f = d / f"probe_{prop}_{os.getpid()}.v"
    f.write_text(SHARD_HEADER.format(imports=imports) + body)
    p = subprocess.run(["timeout", str(timeout), "coqc", "-Q", str(COQ), "VF", "-w", "-all", f.name], cwd=d,
                       stdout=subprocess.PIPE, stderr=subprocess.STDOUT, text=True, preexec_fn=_limit_mem)
    return p.stdout


# ----------------------------------------------------------------------------------------------
# known findings
# ----------------------------------------------------------------------------------------------
def load_findings() -> dict:
    p = ROOT / "known_findings.json"
    if not p.exists():
        return {"known": [], "fixed": []}
    return json.loads(p.read_text())


def short_hash(obj) -> str:
    return hashlib.sha256(json.dumps(obj, sort_keys=True, default=str).encode()).hexdigest()[:12]


FORBIDDEN = re.compile(r"\b(Admitted|admit|Axiom|Axioms|Parameter|Parameters|Conjecture|Conjectures|Admit Obligations|bypass_check)\b|Unset\s+(Guard|Positivity|Universe)\s+Checking|-type-in-type|-impredicative-set")


def forbidden_tokens(files: list[str]) -> list[str]:
    """Declarations and switches the development must not contain (comments are stripped first)."""
    hits = []
    for f in files + ["_CoqProject"]:
        path = COQ / f
        if not path.exists():
            continue
        text = re.sub(r"\(\*.*?\*\)", lambda m: "\n" * m.group(0).count("\n"), path.read_text(), flags=re.S)
        for i, line in enumerate(text.splitlines(), 1):
            m = FORBIDDEN.search(line)
            if m:
                hits.append(f"{f}:{i}: {m.group(0)}")
    return hits


def coqchk_axioms(prop_file: str, timeout: int = 1500) -> tuple[bool, list[str], str]:
    """Independent re-check of the compiled closure of a Props file (coqchk -o); returns the axioms it lists."""
    mod = "VF." + prop_file[:-2].replace("/", ".")
    p = subprocess.run(["timeout", str(timeout), "coqchk", "-o", "-silent", "-Q", ".", "VF", mod], cwd=COQ,
                       stdout=subprocess.PIPE, stderr=subprocess.STDOUT, text=True, preexec_fn=_limit_mem)
    out = p.stdout
    m = re.search(r"\* Axioms:(.*?)\n\s*\n\* Constants/Inductives relying on type-in-type:(.*?)\n\s*\n\* Constants/Inductives relying on unsafe \(co\)fixpoints:(.*?)\n\s*\n\* Inductives whose positivity is assumed:(.*?)\n", out + "\n", flags=re.S)
    if p.returncode != 0 or not m:
        return False, [], out[-2000:]
    ax = [a.strip() for a in m.group(1).split("\n") if a.strip() and a.strip() != "<none>"]
    unsafe = [x.strip() for g in (2, 3, 4) for x in m.group(g).split("\n") if x.strip() and x.strip() != "<none>"]
    return (not unsafe), ax, out[-2000:]


# ----------------------------------------------------------------------------------------------
# a check run
# ----------------------------------------------------------------------------------------------
class Run:
    def __init__(self, prop: str, tier: str, seed: int):
        self.prop = prop
        self.tier = tier
        self.seed = seed
        self.t0 = time.time()
        self.violations: list[str] = []      # printed VIOLATION lines
        self.known: list[str] = []           # printed KNOWN-FINDING lines
        self.coverage: dict = {
            "evaluations": 0, "distinct_nontrivial": 0, "rule": "", "samples": [],
            "obligations": 0, "discharged": 0, "checker_cmd": "", "trusted_base": [],
            "traces_validated_against_impl": 0, "exhaustive": False,
        }
        self.assumptions: list[str] = []
        self.findings = [f for f in load_findings().get("known", []) if f.get("property") == prop]
        self.notes: list[str] = []
        self.per_signature: dict[str, int] = {}
        REPLAYS.mkdir(exist_ok=True)
        for old in REPLAYS.glob(f"{prop}-*.json"):
            old.unlink()

    # -- reporting --
    def log(self, *a):
        print(f"[{self.prop}]", *a, flush=True)

    def replay_path(self, tag: str) -> Path:
        REPLAYS.mkdir(exist_ok=True)
        return REPLAYS / f"{self.prop}-{tag}.json"

    def violation(self, replay: dict, tag: str | None = None, no_input: bool = False) -> None:
        replay = {"property": self.prop, "seed": self.seed, **replay}
        tag = tag or short_hash(replay)
        p = self.replay_path(tag)
        p.write_text(json.dumps(replay, indent=1, default=str))
        line = f"VIOLATION property={self.prop} replay={p}"
        if no_input:
            line += " no-failing-input-found"
        if line not in self.violations:
            self.violations.append(line)
            print(line, flush=True)

    def known_finding(self, what: str) -> None:
        line = f"KNOWN-FINDING: property={self.prop} {what}"
        if line not in self.known:
            self.known.append(line)
            print(line, flush=True)

    def match_finding(self, signature: str) -> dict | None:
        for f in self.findings:
            if f.get("signature") == signature:
                return f
        return None

    def report(self, signature: str, replay: dict, cap: int = 3) -> None:
        """A property failure on the implementation: known finding (by signature) or violation.
        At most `cap` replays are written per signature (all failures are still counted in the evidence)."""
        f = self.match_finding(signature)
        if f is not None:
            self.known_finding(f.get("what", signature))
            return
        n = self.per_signature.get(signature, 0)
        self.per_signature[signature] = n + 1
        if n < cap:
            self.violation({"kind": "input", "signature": signature, **replay})

    # -- proof side --
    def prove(self, prop_file: str, extra_files: list[str] | None = None) -> bool:
        """Build the closure of Props/<prop>.v; record obligations; on failure search is the caller's job."""
        from . import facts

        facts.regenerate()
        deps = coq_deps(prop_file)
        files = list(dict.fromkeys(deps + (extra_files or [])))
        targets = [f[:-2] + ".vo" for f in files if (COQ / f).exists()]
        # Props file itself is compiled separately to capture Print Assumptions
        tgt = [t for t in targets if t != prop_file[:-2] + ".vo"]
        n_obl = count_obligations(files)
        self.coverage["obligations"] = n_obl
        bad = forbidden_tokens(files)
        if bad:
            self.proof_failure = {"file": bad[0].split(":")[0], "lemma": "no-Admitted-no-Axiom scan", "message": "; ".join(bad[:10])}
            self.coverage["discharged"] = 0
            return False
        self.coverage["checker_cmd"] = (
            f"cd {COQ} && coq_makefile -f _CoqProject <sources> -o Makefile && make -j{NCPU} "
            + " ".join(targets) + f"  (coqc 8.16.1, full .vo build; Props file re-run for Print Assumptions)")
        ok, log = coq_make(tgt)
        if not ok:
            self.proof_failure = locate_failure(log)
            failing = self.proof_failure.get("file")
            done = 0
            for f in files:
                if (COQ / (f[:-2] + ".vo")).exists() and f != failing:
                    done += count_obligations([f])
            self.coverage["discharged"] = done
            return False
        with Lock(".coq.lock"):
            ok2, ass, plog = props_assumptions(prop_file)
        if not ok2:
            self.proof_failure = locate_failure(plog)
            self.proof_failure["file"] = self.proof_failure.get("file") or prop_file
            self.coverage["discharged"] = n_obl - count_obligations([prop_file])
            return False
        self.coverage["discharged"] = n_obl
        self.coverage["theorems"] = ass
        axioms = sorted({a for t in ass for a in (t["axioms"] or [])})
        self.coverage["trusted_base"] = [
            "Coq 8.16.1 kernel incl. its bytecode VM (vm_compute); no native_compute",
            "axioms under the property theorems (Print Assumptions): " + (", ".join(axioms) if axioms else "none - closed under the global context"),
            "vf/facts.py translator: tables/constants/structural facts of /repo -> coq/Gen/Generated.v (fail-closed)",
            "correspondence harness vf/props/%s.py + vf/canon.py + CPython 3.12 running /repo; no extraction (no Extract directives)" % self.prop,
            "hand-written Gallina model of the anchored code (coq/Model/*.v): modelled, not verified in place",
        ]
        for t in ass:
            if t["axioms"] is None:
                self.notes.append(f"Print Assumptions output missing for {t['theorem']}")
        if self.tier == "thorough":
            with Lock(".coq.lock"):
                okc, cax, clog = coqchk_axioms(prop_file)
            self.coverage["coqchk"] = {"cmd": f"coqchk -o -silent -Q . VF VF.{prop_file[:-2].replace('/', '.')}", "ok": okc, "axioms": cax}
            self.coverage["trusted_base"].append("coqchk -o (independent checker) on the compiled closure: axioms " + (", ".join(cax) if cax else "none"))
            if not okc:
                self.proof_failure = {"file": prop_file, "lemma": "coqchk", "message": clog[-800:]}
                self.coverage["discharged"] = n_obl - 1
                return False
        return True

    # -- finish --
    def finish(self) -> int:
        EVIDENCE.mkdir(exist_ok=True)
        # safety net: a proof obligation that no longer checks is a violation even when the only failures found on the implementation
        # are listed known findings (they explain nothing about a broken proof): the property is no longer shown to hold
        pf = getattr(self, "proof_failure", None)
        if pf and not self.violations:
            self.violation({"kind": "obligation", "theorem_or_correspondence": pf.get("lemma"), **pf}, tag="obligation-" + str(pf.get("lemma")), no_input=True)
        cov = self.coverage
        cov["samples"] = cov["samples"][:12] or ["<none>"]
        ev = {
            "property_id": self.prop,
            "tier": self.tier,
            "seed": self.seed,
            "level": "proof",
            "coverage": cov,
            "assumptions": self.assumptions,
            "wall_s": round(time.time() - self.t0, 2),
            "violations": len(self.violations),
            "known_findings": self.known,
            "failures_per_signature": self.per_signature,
            "notes": self.notes,
        }
        (EVIDENCE / f"{self.prop}.json").write_text(json.dumps(ev, indent=1, default=str))
        self.log(f"done in {ev['wall_s']}s: obligations {cov['obligations']}/{cov['discharged']} discharged, "
                 f"{cov['evaluations']} correspondence/oracle evaluations, {len(self.violations)} violation(s), "
                 f"{len(self.known)} known finding(s)")
        return 1 if self.violations else 0
