"""Tie 1: regenerate coq/Gen/Generated.v from /repo's working tree (fail-closed translator).

Everything that is a table, a constant or a structural fact of the code is extracted here by
importing the live package and walking its `ast`; nothing is matched by regex on text.  Anything the
extractor does not recognise sets `unrecognised := true`, which falsifies GeneratedOk.facts_recognised.
"""
from __future__ import annotations

import ast
import inspect
import textwrap

from .common import COQ, cbool, clist, cnat, cpair, cstr, cz, setup_env

BINOPS = {ast.BitOr: "BOr", ast.BitXor: "BXor", ast.BitAnd: "BAnd", ast.LShift: "BShl", ast.RShift: "BShr",
          ast.Add: "BAdd", ast.Sub: "BSub", ast.Mult: "BMul", ast.FloorDiv: "BDiv", ast.Mod: "BMod"}
UNOPS = {ast.USub: "UNeg", ast.Invert: "UInv"}
CMPS = {ast.GtE: "CmpGe", ast.Gt: "CmpGt", ast.LtE: "CmpLe", ast.Lt: "CmpLt"}


class Facts:
    def __init__(self):
        self.unrecognised: list[str] = []
        self.lines: list[str] = []

    def bad(self, what: str):
        self.unrecognised.append(what)

    def define(self, name: str, ty: str, body: str):
        self.lines.append(f"Definition {name} : {ty} := {body}.")


def _class_node(mod_src: str, cls: str) -> ast.ClassDef:
    tree = ast.parse(mod_src)
    for n in tree.body:
        if isinstance(n, ast.ClassDef) and n.name == cls:
            return n
    raise KeyError(cls)


def _method(cls: ast.ClassDef, name: str) -> ast.FunctionDef | None:
    for n in cls.body:
        if isinstance(n, ast.FunctionDef) and n.name == name:
            return n
    return None


def _dict_assign(cls: ast.ClassDef, name: str) -> ast.Dict | None:
    for n in cls.body:
        tgt = None
        if isinstance(n, ast.AnnAssign) and isinstance(n.target, ast.Name):
            tgt, val = n.target.id, n.value
        elif isinstance(n, ast.Assign) and len(n.targets) == 1 and isinstance(n.targets[0], ast.Name):
            tgt, val = n.targets[0].id, n.value
        if tgt == name and isinstance(val, ast.Dict):
            return val
    return None


def expression_facts(F: Facts) -> None:
    from dissect.cstruct import expression

    src = inspect.getsource(expression)
    cls = _class_node(src, "Expression")
    live = expression.Expression

    # precedence table: live dict (so monkey-level edits count) cross-checked with the AST literal
    prec = live.precedence_levels
    d = _dict_assign(cls, "precedence_levels")
    if d is None or not all(isinstance(k, ast.Constant) and isinstance(v, ast.Constant) for k, v in zip(d.keys, d.values)):
        F.bad("precedence_levels literal")
    elif {k.value: v.value for k, v in zip(d.keys, d.values)} != dict(prec):
        F.bad("precedence_levels live != source")
    F.define("prec_table", "list (string * Z)", clist(cpair(cstr(k), cz(int(v))) for k, v in prec.items()))

    def ops(name: str, table: dict, arity: int, ctor: str):
        d = _dict_assign(cls, name)
        out = []
        live_keys = list(getattr(live, name).keys())
        if d is None:
            F.bad(name)
            return out
        keys = []
        for k, v in zip(d.keys, d.values):
            kind = ctor
            if isinstance(k, ast.Constant) and isinstance(v, ast.Lambda):
                args = [a.arg for a in v.args.args]
                body = v.body
                if arity == 2 and len(args) == 2 and isinstance(body, ast.BinOp) and isinstance(body.left, ast.Name) \
                        and isinstance(body.right, ast.Name) and body.left.id == args[0] and body.right.id == args[1] \
                        and type(body.op) in table:
                    kind = table[type(body.op)]
                elif arity == 1 and len(args) == 1 and isinstance(body, ast.UnaryOp) and isinstance(body.operand, ast.Name) \
                        and body.operand.id == args[0] and type(body.op) in table:
                    kind = table[type(body.op)]
                keys.append(k.value)
                out.append(cpair(cstr(k.value), kind))
            else:
                F.bad(f"{name} entry")
        if keys != live_keys:
            F.bad(f"{name} live != source")
        return out

    F.define("binary_ops", "list (string * bop)", clist(ops("binary_operators", BINOPS, 2, "BUnknown"), "(string * bop)"))
    F.define("unary_ops", "list (string * uop)", clist(ops("unary_operators", UNOPS, 1, "UUnknown"), "(string * uop)"))

    # the unary-minus marker: every store `self.tokens[i] = <const>` inside evaluate
    ev = _method(cls, "evaluate")
    markers = set()
    if ev is None:
        F.bad("evaluate")
    else:
        for n in ast.walk(ev):
            if isinstance(n, ast.Assign) and len(n.targets) == 1 and isinstance(n.targets[0], ast.Subscript):
                t = n.targets[0].value
                if isinstance(t, ast.Attribute) and t.attr == "tokens":
                    if isinstance(n.value, ast.Constant) and isinstance(n.value.value, str):
                        markers.add(n.value.value)
                    else:
                        F.bad("marker store is not a constant")
    if len(markers) != 1:
        F.bad(f"unary minus marker not unique: {sorted(markers)}")
    F.define("minus_marker", "string", cstr(sorted(markers)[0] if markers else "?"))

    # precedence(): `return self.precedence_levels[o1] <cmp> self.precedence_levels[o2]`
    pm = _method(cls, "precedence")
    cmpc = "CmpOther"
    if pm is not None and len(pm.body) >= 1 and isinstance(pm.body[-1], ast.Return) and isinstance(pm.body[-1].value, ast.Compare):
        c = pm.body[-1].value
        a1, a2 = [a.arg for a in pm.args.args][1:3]

        def is_level(e, arg):
            return (isinstance(e, ast.Subscript) and isinstance(e.value, ast.Attribute) and e.value.attr == "precedence_levels"
                    and isinstance(e.slice, ast.Name) and e.slice.id == arg)

        if len(c.ops) == 1 and type(c.ops[0]) in CMPS and is_level(c.left, a1) and is_level(c.comparators[0], a2):
            cmpc = CMPS[type(c.ops[0])]
    F.define("prec_cmp", "cmp", cmpc)


def type_facts(F: Facts) -> None:
    import struct as _struct_mod

    from dissect.cstruct import cstruct
    from dissect.cstruct.types import LEB128, Char, Int, Packed, Void, Wchar

    cs = cstruct()
    rows = []
    for name, t in cs.typedefs.items():
        if isinstance(t, str):
            rows.append(f"mkT {cstr(name)} (KAlias {cstr(t)}) None None {cstr('')} {cstr('')}")
            continue
        size = getattr(t, "size", None)
        align = getattr(t, "alignment", None)
        pc = ""
        if isinstance(t, type) and issubclass(t, Packed):
            pc = t.packchar
            if pc in "bBhHiIqQ" and len(pc) == 1 and issubclass(t, int):
                kind = f"(KPackedInt {cbool(pc.islower())})"
                if _struct_mod.calcsize(pc) != size:
                    F.bad(f"{name}: size != calcsize")
            elif pc in "efd" and len(pc) == 1 and issubclass(t, float):
                kind = "KPackedFloat"
            else:
                kind = "KOther"
        elif isinstance(t, type) and issubclass(t, Int):
            kind = f"(KInt {cbool(bool(t.signed))})"
        elif isinstance(t, type) and issubclass(t, Char):
            kind = "KChar"
        elif isinstance(t, type) and issubclass(t, Wchar):
            kind = "KWchar"
        elif isinstance(t, type) and issubclass(t, LEB128):
            kind = f"(KLeb {cbool(bool(t.signed))})"
        elif isinstance(t, type) and issubclass(t, Void):
            kind = "KVoid"
        else:
            kind = "KOther"
        so = "None" if size is None else f"(Some {cz(size)})"
        ao = "None" if align is None else f"(Some {cz(align)})"
        rows.append(f"mkT {cstr(name)} {kind} {so} {ao} {cstr(pc)} {cstr(t.__name__)}")
    F.define("type_table", "list tentry", clist(rows, "tentry"))

    # resolve(): the loop bound
    import dissect.cstruct.cstruct as csmod

    cls = _class_node(inspect.getsource(csmod), "cstruct")
    rm = _method(cls, "resolve")
    bounds = set()
    if rm is not None:
        for n in ast.walk(rm):
            if isinstance(n, ast.For) and isinstance(n.iter, ast.Call) and getattr(n.iter.func, "id", None) == "range" \
                    and len(n.iter.args) == 1 and isinstance(n.iter.args[0], ast.Constant):
                bounds.add(n.iter.args[0].value)
    if len(bounds) != 1:
        F.bad("resolve bound")
    F.define("resolve_bound", "Z", cz(sorted(bounds)[0] if bounds else 0))
    # default pointer type name resolves to an unsigned integer type of the platform width
    F.define("default_pointer", "string", cstr(cs.pointer.__name__))


def endian_facts(F: Facts) -> None:
    import sys

    from dissect.cstruct import utils
    from dissect.cstruct.types.wchar import Wchar

    def e_of(v: str) -> str:
        return {"little": "LE", "big": "BE"}.get(v, "EUnknownEndian")

    rows = []
    for k, v in utils.ENDIANNESS_MAP.items():
        e = "ENative" if k in ("@", "=") and v == sys.byteorder else e_of(v)
        rows.append(cpair(cstr(k), e))
    F.define("endianness_map", "list (string * endian)", clist(rows, "(string * endian)"))
    rows = []
    for k, v in Wchar.__encoding_map__.items():
        if k in ("@", "=") and v == f"utf-16-{sys.byteorder[0]}e":
            e = "ENative"
        else:
            e = {"utf-16-le": "LE", "utf-16-be": "BE"}.get(v, "EUnknownEndian")
        rows.append(cpair(cstr(k), e))
    F.define("wchar_encoding_map", "list (string * endian)", clist(rows, "(string * endian)"))

    F.define("color_normal", "string", cstr(utils.COLOR_NORMAL))
    F.define("printable_codes", "list Z", clist((cz(ord(c)) for c in sorted(set(utils.PRINTABLE))), "Z"))
    # _hexdump: constants of its range() calls and of its comparisons with the column index
    src = inspect.getsource(utils)
    fn = None
    for n in ast.parse(src).body:
        if isinstance(n, ast.FunctionDef) and n.name == "_hexdump":
            fn = n
    widths, cols = set(), set()
    if fn is None:
        F.bad("_hexdump")
    else:
        for n in ast.walk(fn):
            if isinstance(n, ast.Call) and getattr(n.func, "id", None) == "range":
                for a in n.args:
                    if isinstance(a, ast.Constant) and a.value != 0:
                        widths.add(a.value)
            if isinstance(n, ast.Compare) and isinstance(n.left, ast.Name) and n.left.id == "j" and isinstance(n.comparators[0], ast.Constant):
                cols.add(n.comparators[0].value)
    if len(widths) != 1:
        F.bad(f"hexdump row width {widths}")
    F.define("hexdump_row_width", "Z", cz(sorted(widths)[0] if widths else 0))
    F.define("hexdump_special_columns", "list Z", clist((cz(c) for c in sorted(cols)), "Z"))


def sharing_facts(F: Facts) -> None:
    """Type-level scratch state on the parse/dump path (C14, C15): attribute stores and in-place mutations on `self`/`cls` inside
    Expression.evaluate, and inside the _read*/_write* methods of the type classes; `global` statements in those modules."""
    import dissect.cstruct.bitbuffer as m_bb
    import dissect.cstruct.compiler as m_comp
    import dissect.cstruct.expression as m_expr
    import dissect.cstruct.types.base as m_base
    import dissect.cstruct.types.char as m_char
    import dissect.cstruct.types.enum as m_enum
    import dissect.cstruct.types.int as m_int
    import dissect.cstruct.types.leb128 as m_leb
    import dissect.cstruct.types.packed as m_packed
    import dissect.cstruct.types.pointer as m_ptr
    import dissect.cstruct.types.structure as m_struct
    import dissect.cstruct.types.wchar as m_wchar

    MUTATORS = {"append", "pop", "extend", "insert", "clear", "update", "remove", "setdefault", "popitem", "sort", "reverse"}

    def scratch(fn: ast.FunctionDef, receivers: set[str]) -> list[str]:
        out = []
        for n in ast.walk(fn):
            targets = []
            if isinstance(n, ast.Assign):
                targets = n.targets
            elif isinstance(n, (ast.AugAssign, ast.AnnAssign)):
                targets = [n.target]
            for t in targets:
                if isinstance(t, ast.Attribute) and isinstance(t.value, ast.Name) and t.value.id in receivers:
                    out.append(f"{fn.name}:{t.value.id}.{t.attr}")
            if isinstance(n, ast.Call) and isinstance(n.func, ast.Attribute) and n.func.attr in MUTATORS:
                recv = n.func.value
                if isinstance(recv, ast.Attribute) and isinstance(recv.value, ast.Name) and recv.value.id in receivers:
                    out.append(f"{fn.name}:{recv.value.id}.{recv.attr}.{n.func.attr}()")
        return out

    cls = _class_node(inspect.getsource(m_expr), "Expression")
    ev = _method(cls, "evaluate")
    F.define("expr_scratch_attrs", "list string", clist((cstr(x) for x in (scratch(ev, {"self"}) if ev else ["<evaluate missing>"])), "string"))

    stores, globals_ = [], 0
    for mod in (m_base, m_char, m_enum, m_int, m_leb, m_packed, m_wchar, m_struct, m_bb, m_comp, m_expr, m_ptr):
        tree = ast.parse(inspect.getsource(mod))
        globals_ += sum(1 for n in ast.walk(tree) if isinstance(n, (ast.Global, ast.Nonlocal)) and not (mod is m_comp and isinstance(n, ast.Nonlocal)))
        for c in [n for n in tree.body if isinstance(n, ast.ClassDef)]:
            for fn in [n for n in c.body if isinstance(n, ast.FunctionDef)]:
                if fn.name in ("_read", "_read_array", "_read_0", "_write", "_write_array", "_write_0", "_read_fields", "reads", "read", "dumps", "write"):
                    stores += [f"{mod.__name__.split('.')[-1]}.{c.name}.{x}" for x in scratch(fn, {"cls"})]
    F.define("type_level_stores", "list string", clist((cstr(x) for x in stores), "string"))
    F.define("global_statements", "Z", cz(globals_))
    # probed behaviour: do two default constructions share a list / a nested structure?
    from dissect.cstruct import cstruct

    cs = cstruct()
    cs.load("struct probe_in { uint8 x; }; struct probe { uint8 a[2]; probe_in s; probe_in t[2]; };")
    p, q = cs.probe(), cs.probe()
    fresh = p.a is not q.a and p.s is not q.s and p.t is not q.t and p.t[0] is not p.t[1]
    F.define("defaults_fresh", "bool", cbool(fresh))


GENERATORS = [expression_facts, type_facts, endian_facts, sharing_facts]


def render() -> str:
    setup_env()
    F = Facts()
    for g in GENERATORS:
        try:
            g(F)
        except Exception as e:  # fail closed
            F.bad(f"{g.__name__}: {type(e).__name__}: {e}")
    head = textwrap.dedent("""\
        (* GENERATED by vf/facts.py from /repo's working tree - do not edit; rewritten on every run. *)
        From VF Require Import Model.ExprOps Model.TypeFacts.
        Open Scope string_scope. Open Scope list_scope. Open Scope Z_scope.
        """)
    notes = "".join(f"(* unrecognised: {u} *)\n" for u in F.unrecognised)
    body = "\n".join(F.lines)
    return head + notes + f"Definition unrecognised : bool := {cbool(bool(F.unrecognised))}.\n" + body + "\n"


def regenerate() -> bool:
    """Rewrite Gen/Generated.v if its content changed; returns True when it changed."""
    from .common import Lock

    txt = render()
    p = COQ / "Gen" / "Generated.v"
    with Lock(".coq.lock"):
        old = p.read_text() if p.exists() else None
        if old != txt:
            p.write_text(txt)
            return True
    return False


if __name__ == "__main__":
    print(render())
