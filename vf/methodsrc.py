"""Fail-closed reader of the byte code of the methods dissect.cstruct generates for a structure class (__eq__, __bool__, __hash__,
__init__): CPython 3.12 byte code -> the `code` terms of coq/Model/Methods.v (name / constant / variable tuples and a body that refers
to them by index).  Anything that is not exactly the shape the templates compile to raises Shape; the caller reports that as a broken tie.
"""
from __future__ import annotations

import dis
import sys

from .common import clist, cnat, cstr


class Shape(Exception):
    pass


def _ins(fn):
    if sys.version_info[:2] != (3, 12):
        raise Shape(f"byte-code reader written for CPython 3.12, running {sys.version_info[:2]}")
    out = [i for i in dis.get_instructions(fn) if i.opname not in ("RESUME", "NOP", "CACHE")]
    return out


def _expect(ins, pos, opname, arg=None):
    if pos >= len(ins) or ins[pos].opname != opname or (arg is not None and ins[pos].arg != arg):
        got = f"{ins[pos].opname} {ins[pos].arg}" if pos < len(ins) else "end of code"
        raise Shape(f"instruction {pos}: expected {opname} {'' if arg is None else arg}, found {got}")
    return ins[pos]


def _attr_run(ins, pos, var, n):
    """n times (LOAD_FAST var; LOAD_ATTR k) -> the k's"""
    ks = []
    for _ in range(n):
        _expect(ins, pos, "LOAD_FAST", var)
        a = _expect(ins, pos + 1, "LOAD_ATTR")
        if a.arg & 1:
            raise Shape("method-style LOAD_ATTR")
        ks.append(a.arg >> 1)
        pos += 2
    return ks, pos


def read_eq(fn):
    ins = _ins(fn)
    _expect(ins, 0, "LOAD_FAST", 0)
    c1 = _expect(ins, 1, "LOAD_ATTR").arg
    _expect(ins, 2, "LOAD_FAST", 1)
    c2 = _expect(ins, 3, "LOAD_ATTR").arg
    if c1 != c2 or c1 & 1:
        raise Shape("the two class lookups differ")
    _expect(ins, 4, "IS_OP", 0)
    j = _expect(ins, 5, "POP_JUMP_IF_FALSE")
    # count members: instructions until BUILD_TUPLE
    pos = 6
    n = 0
    while pos + 2 * n < len(ins) and ins[pos + 2 * n].opname == "LOAD_FAST" and ins[pos + 2 * n].arg == 0:
        n += 1
    ss, pos = _attr_run(ins, pos, 0, n)
    _expect(ins, pos, "BUILD_TUPLE", n)
    os_, pos = _attr_run(ins, pos + 1, 1, n)
    _expect(ins, pos, "BUILD_TUPLE", n)
    cmp_ = _expect(ins, pos + 1, "COMPARE_OP")
    if cmp_.argval != "==":
        raise Shape(f"comparison {cmp_.argval}")
    _expect(ins, pos + 2, "RETURN_VALUE")
    r = _expect(ins, pos + 3, "RETURN_CONST")
    if r.argval is not False or j.argval != r.offset or len(ins) != pos + 4:
        raise Shape("the other-class branch does not return False")
    return {"names": list(fn.__code__.co_names), "consts": [], "varnames": list(fn.__code__.co_varnames),
            "body": f"(BEq {c1 >> 1} {clist(map(cnat, ss), 'nat')} {clist(map(cnat, os_), 'nat')})"}


def _read_call(fn, build, ctor):
    ins = _ins(fn)
    g = _expect(ins, 0, "LOAD_GLOBAL")
    if not g.arg & 1:
        raise Shape("LOAD_GLOBAL without NULL")
    pos, n = 1, 0
    while pos + 2 * n < len(ins) and ins[pos + 2 * n].opname == "LOAD_FAST":
        n += 1
    ks, pos = _attr_run(ins, pos, 0, n)
    flag = ""
    if ctor == "BHash":
        # hash((self._0)) is hash(self._0): the template's parentheses make no tuple of one field
        if n == 1 and ins[pos].opname == "CALL":
            flag = "false "
            pos -= 1
        else:
            flag = "true "
            _expect(ins, pos, build, n)
    else:
        _expect(ins, pos, build, n)
    _expect(ins, pos + 1, "CALL", 1)
    _expect(ins, pos + 2, "RETURN_VALUE")
    if len(ins) != pos + 3:
        raise Shape("trailing instructions")
    return {"names": list(fn.__code__.co_names), "consts": [], "varnames": list(fn.__code__.co_varnames),
            "body": f"({ctor} {g.arg >> 1} {flag}{clist(map(cnat, ks), 'nat')})"}


def read_bool(fn):
    return _read_call(fn, "BUILD_LIST", "BAny")


def read_hash(fn):
    return _read_call(fn, "BUILD_TUPLE", "BHash")


def read_init(fn, const_term):
    """const_term: python constant -> Coq `cst Z` term (CNone / CInt i / CVal z)"""
    ins = _ins(fn)
    stores, pos = [], 0
    if fn.__defaults__ is None or any(d is not None for d in fn.__defaults__) or len(fn.__defaults__) != fn.__code__.co_argcount - 1 \
            or fn.__code__.co_kwonlyargcount or fn.__code__.co_flags & 0x0C:
        raise Shape("parameters: every field is an optional positional-or-keyword parameter defaulting to None")
    while pos < len(ins):
        if ins[pos].opname == "RETURN_CONST" and pos == len(ins) - 1 and ins[pos].argval is None:
            break
        v = _expect(ins, pos, "LOAD_FAST").arg
        j = _expect(ins, pos + 1, "POP_JUMP_IF_NONE")
        _expect(ins, pos + 2, "LOAD_FAST", v)
        if pos + 3 < len(ins) and ins[pos + 3].opname == "JUMP_FORWARD":
            c = _expect(ins, pos + 4, "LOAD_CONST")
            _expect(ins, pos + 5, "LOAD_FAST", 0)
            s = _expect(ins, pos + 6, "STORE_ATTR")
            if j.argval != c.offset or ins[pos + 3].argval != ins[pos + 5].offset:
                raise Shape("jump targets of a conditional store")
            stores.append((v, c.arg, s.arg))
            pos += 7
        else:
            _expect(ins, pos + 3, "LOAD_FAST", 0)
            s1 = _expect(ins, pos + 4, "STORE_ATTR")
            r1 = _expect(ins, pos + 5, "RETURN_CONST")
            c = _expect(ins, pos + 6, "LOAD_CONST")
            _expect(ins, pos + 7, "LOAD_FAST", 0)
            s2 = _expect(ins, pos + 8, "STORE_ATTR")
            r2 = _expect(ins, pos + 9, "RETURN_CONST")
            if j.argval != c.offset or s1.arg != s2.arg or r1.argval is not None or r2.argval is not None or len(ins) != pos + 10:
                raise Shape("tail of __init__")
            stores.append((v, c.arg, s1.arg))
            pos += 10
            break
    body = "(BInit " + clist((f"({cnat(v)}, {cnat(c)}, {cnat(n)})" for v, c, n in stores), "nat * nat * nat") + ")"
    return {"names": list(fn.__code__.co_names), "consts": [const_term(c) for c in fn.__code__.co_consts],
            "varnames": list(fn.__code__.co_varnames), "body": body}


def read_union_init(fn, const_term):
    ins = _ins(fn)
    stores, pos = [], 0
    if fn.__defaults__ is None or any(d is not None for d in fn.__defaults__) or len(fn.__defaults__) != fn.__code__.co_argcount - 1 \
            or fn.__code__.co_kwonlyargcount or fn.__code__.co_flags & 0x0C:
        raise Shape("parameters: every member is an optional positional-or-keyword parameter defaulting to None")
    obj = sa = None
    while pos < len(ins):
        if ins[pos].opname == "RETURN_CONST" and pos == len(ins) - 1 and ins[pos].argval is None:
            break
        g = _expect(ins, pos, "LOAD_GLOBAL")
        a = _expect(ins, pos + 1, "LOAD_ATTR")
        if g.arg & 1 or not a.arg & 1 or (obj is not None and (obj, sa) != (g.arg >> 1, a.arg >> 1)):
            raise Shape("the call is not <global>.<method>(...)")
        obj, sa = g.arg >> 1, a.arg >> 1
        _expect(ins, pos + 2, "LOAD_FAST", 0)
        k = _expect(ins, pos + 3, "LOAD_CONST")
        v = _expect(ins, pos + 4, "LOAD_FAST").arg
        j = _expect(ins, pos + 5, "POP_JUMP_IF_NONE")
        _expect(ins, pos + 6, "LOAD_FAST", v)
        if pos + 7 < len(ins) and ins[pos + 7].opname == "JUMP_FORWARD":
            c = _expect(ins, pos + 8, "LOAD_CONST")
            call = _expect(ins, pos + 9, "CALL", 3)
            _expect(ins, pos + 10, "POP_TOP")
            if j.argval != c.offset or ins[pos + 7].argval != call.offset:
                raise Shape("jump targets of a conditional store")
            stores.append((v, k.arg, c.arg))
            pos += 11
        else:
            _expect(ins, pos + 7, "CALL", 3)
            _expect(ins, pos + 8, "POP_TOP")
            r1 = _expect(ins, pos + 9, "RETURN_CONST")
            c = _expect(ins, pos + 10, "LOAD_CONST")
            _expect(ins, pos + 11, "CALL", 3)
            _expect(ins, pos + 12, "POP_TOP")
            r2 = _expect(ins, pos + 13, "RETURN_CONST")
            if j.argval != c.offset or r1.argval is not None or r2.argval is not None or len(ins) != pos + 14:
                raise Shape("tail of the union's __init__")
            stores.append((v, k.arg, c.arg))
            pos += 14
            break
    if obj is None:
        raise Shape("a union without members")
    body = f"(BInitU {obj} {sa} " + clist((f"({cnat(v)}, {cnat(k)}, {cnat(c)})" for v, k, c in stores), "nat * nat * nat") + ")"
    consts = []
    for i, c in enumerate(fn.__code__.co_consts):
        # member names are the constants at the odd places
        consts.append(f"(CStr {cstr(c)})" if isinstance(c, str) and i % 2 == 1 else const_term(c))
    return {"names": list(fn.__code__.co_names), "consts": consts, "varnames": list(fn.__code__.co_varnames), "body": body}


def code_term(d) -> str:
    return (f"(mkCode {clist(map(cstr, d['names']), 'string')} {clist(d['consts'], 'cst Z')} "
            f"{clist(map(cstr, d['varnames']), 'string')} {d['body']})")
