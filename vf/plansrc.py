"""Parses the source text the compiled-reader generator emits (T._read.__func__.__source__) into the instruction list of
coq/Model/Compiler.v (`sinstr`).  Fail-closed: a statement this parser does not know raises PlanSyntax, which the caller reports as a
broken correspondence (the generator changed shape)."""
from __future__ import annotations

import re

from .common import cbool, clist, cpair, cstr, cz


class PlanSyntax(Exception):
    pass


HEADER = ["r = {}", "s = {}", "o = stream.tell()"]
OUTRO = ["obj = type.__call__(cls, **r)", "obj._sizes = s", "obj._values = r", "return obj"]

RE_SEEK = re.compile(r"^stream\.seek\(o \+ (\d+)\)$")
RE_ALIGN = re.compile(r"^stream\.seek\(-stream\.tell\(\) & \((\d+) - 1\), 1\)$")
RE_TAIL = re.compile(r"^stream\.seek\(-stream\.tell\(\) & \(\(cls\.alignment or 1\) - 1\), 1\)$")
RE_SUB_R = re.compile(r'^r\["([^"]+)"\] = (_\d+)\._read\(stream, context=r\)$')
RE_SUB_S = re.compile(r'^s\["([^"]+)"\] = stream\.tell\(\) - _s$')
RE_BITS = re.compile(r'^r\["([^"]+)"\] = type\.__call__\((_t|cls\.cs\.uint8), bit_reader\.read\((_t|_t\.type), (\d+)\)\)$')
RE_READ = re.compile(r"^buf = stream\.read\((\d+)\)$")
RE_LEN = re.compile(r"^if len\(buf\) != (\d+): raise EOFError\(\)$")
RE_UNPACK = re.compile(r'^data = _struct\(cls\.cs\.endian, "([^"]*)"\)\.unpack\(buf\)$')
RE_ITEM_R = re.compile(r'^r\["([^"]+)"\] = (.*)$')
RE_ITEM_S = re.compile(r'^s\["([^"]+)"\] = (\d+)$')
RE_G_BUF = re.compile(r"buf\[(\d+):(\d+)\]")
RE_G_DATAN = re.compile(r"data\[(\d+):(\d+)\]")
RE_G_DATA = re.compile(r"data\[(\d+)\]")
RE_TOK = re.compile(r"^_(t|pt|et|b) = ")


def parse_fmt(fmt: str):
    out, i = [], 0
    for m in re.finditer(r"(\d*)([a-zA-Z?])", fmt):
        if m.start() != i:
            raise PlanSyntax(f"format {fmt!r}")
        i = m.end()
        out.append((int(m.group(1)) if m.group(1) else 1, m.group(2)))
    if i != len(fmt):
        raise PlanSyntax(f"format {fmt!r}")
    return out


def parse_source(src: str):
    lines = [ln.strip() for ln in src.splitlines()]
    lines = [ln for ln in lines if ln]
    if not lines or not lines[0].startswith("def _read(cls, stream, context=None):"):
        raise PlanSyntax("header")
    lines = lines[1:]
    if lines[:3] != HEADER:
        raise PlanSyntax("preamble")
    lines = lines[3:]
    has_bits = False
    if lines and lines[0] == "bit_reader = BitBuffer(stream, cls.cs.endian)":
        has_bits = True
        lines = lines[1:]
    if lines[-4:] != OUTRO:
        raise PlanSyntax("outro")
    lines = lines[:-4]
    out, i, n = [], 0, len(lines)
    while i < n:
        ln = lines[i]
        if m := RE_SEEK.match(ln):
            out.append(("seek", int(m.group(1))))
            i += 1
        elif m := RE_ALIGN.match(ln):
            out.append(("alignto", int(m.group(1))))
            i += 1
        elif RE_TAIL.match(ln):
            out.append(("aligntail",))
            i += 1
        elif ln == "bit_reader.reset()":
            out.append(("reset",))
            i += 1
        elif ln == "_s = stream.tell()":
            m1 = RE_SUB_R.match(lines[i + 1]) if i + 1 < n else None
            m2 = RE_SUB_S.match(lines[i + 2]) if i + 2 < n else None
            if not m1 or not m2 or m1.group(1) != m2.group(1):
                raise PlanSyntax(f"sub-reader statement group at {ln!r}")
            out.append(("sub", m1.group(1)))
            i += 3
        elif re.match(r"^_t = _\d+$", ln) and i + 1 < n and (m := RE_BITS.match(lines[i + 1])):
            if not has_bits:
                raise PlanSyntax("bit_reader used without being created")
            out.append(("bits", m.group(1), int(m.group(4)), m.group(3) == "_t.type", m.group(2) == "cls.cs.uint8"))
            i += 2
        elif m := RE_READ.match(ln):
            size = int(m.group(1))
            m2 = RE_LEN.match(lines[i + 1]) if i + 1 < n else None
            if not m2 or int(m2.group(1)) != size:
                raise PlanSyntax("block length test")
            i += 2
            fmt, unpack = [], False
            if i < n and (m3 := RE_UNPACK.match(lines[i])):
                fmt, unpack = parse_fmt(m3.group(1)), True
                i += 1
            items = []
            while i < n:
                # one member: optional helper assignments, r[name] = ..., s[name] = size
                j = i
                if re.match(r"^_t = _\d+$", lines[j]) and j + 1 < n and RE_BITS.match(lines[j + 1]):
                    break
                while j < n and RE_TOK.match(lines[j]):
                    j += 1
                mr = RE_ITEM_R.match(lines[j]) if j < n else None
                ms = RE_ITEM_S.match(lines[j + 1]) if j + 1 < n else None
                if not mr or not ms or mr.group(1) != ms.group(1) or "_read(stream" in mr.group(2) or "bit_reader" in mr.group(2):
                    if j == i:
                        break
                    raise PlanSyntax(f"block member at {lines[i]!r}")
                text = " ".join(lines[i:j + 1])
                if g := RE_G_BUF.search(text):
                    getter = ("buf", int(g.group(1)), int(g.group(2)))
                elif g := RE_G_DATAN.search(text):
                    getter = ("datan", int(g.group(1)), int(g.group(2)))
                elif g := RE_G_DATA.search(text):
                    getter = ("data", int(g.group(1)))
                else:
                    raise PlanSyntax(f"no getter in {text!r}")
                items.append((mr.group(1), getter, int(ms.group(2))))
                i = j + 2
            out.append(("block", size, fmt, unpack, items))
        else:
            raise PlanSyntax(f"unknown statement {ln!r}")
    return out


def getter_term(g) -> str:
    if g[0] == "buf":
        return f"(GBuf {cz(g[1])} {cz(g[2])})"
    if g[0] == "datan":
        return f"(GDataN {cz(g[1])} {cz(g[2])})"
    return f"(GData {cz(g[1])})"


def plan_term(plan) -> str:
    out = []
    for ins in plan:
        k = ins[0]
        if k == "seek":
            out.append(f"SSeek {cz(ins[1])}")
        elif k == "alignto":
            out.append(f"SAlignTo {cz(ins[1])}")
        elif k == "aligntail":
            out.append("SAlignTail")
        elif k == "reset":
            out.append("SReset")
        elif k == "sub":
            out.append(f"SSub {cstr(ins[1])}")
        elif k == "bits":
            out.append(f"SBits {cstr(ins[1])} {cz(ins[2])} {cbool(ins[3])} {cbool(ins[4])}")
        else:
            fmt = clist((cpair(cz(c), cstr(ch)) for c, ch in ins[2]), "(Z * string)")
            items = clist((f"({cstr(nm)}, {getter_term(g)}, {cz(sz)})" for nm, g, sz in ins[4]), "(string * getter * Z)")
            out.append(f"SBlock {cz(ins[1])} {fmt} {cbool(ins[3])} {items}")
    return clist(out, "sinstr")
