"""C01 — value round-trip: dumping any value and parsing it back yields the same value; no silent truncation.

Proof:          coq/Props/C01.v (scalar / array / structure round-trip theorems on Model.Reader / Model.Writer)
Correspondence: parse, dump of parsed values, dump of directly constructed values (in and out of range)
                x endianness x {packed, aligned} x {compiled, interpreted}
Oracle:         T(dumps(v)) == v and consumed == len(dumps(v)); an out-of-range integer makes dumps raise
"""
from __future__ import annotations

import random

from .. import structs
from ..common import Run
from ..structcorr import Case, build_items, report_unexplained, run_items
from . import _family as F


def roundtrip_problem(cs, T, v, dumped, eof=False):
    """v: implementation value; dumped: bytes. Returns a problem dict or None."""
    r = structs.parse(cs, "main", dumped + (b"" if eof else b"\xee" * 3), 0)
    if r[0] != "ok":
        return {"observed": f"parsing dumps(v) raises {type(r[1]).__name__}: {r[1]}", "expected": "v"}
    from .C08 import strip_union_buffers       # unions are compared by their members (padding common to all members aside)

    try:
        a, b = strip_union_buffers(structs.py_value(v, T)), strip_union_buffers(structs.py_value(r[1], T))
    except structs.HasNaN:
        return None
    if a != b:
        return {"observed": repr(b)[:300], "expected": repr(a)[:300], "what": "parse(dumps(v)) != v"}
    if r[2] != len(dumped):
        return {"observed": r[2], "expected": len(dumped), "what": "bytes consumed != len(dumps(v))"}
    return None


def has_eof(text: str) -> bool:
    return "[EOF]" in text


def check(run: Run) -> None:
    rng = random.Random(f"C01-{run.seed}")
    thorough = run.tier == "thorough"
    ok = run.prove("Props/C01.v")
    items, explained, failures, n_oracle = [], set(), 0, 0
    pending = []
    pending_mixed = []
    n = 3000 if thorough else 600
    # unions whose largest size is shared by a member that covers every byte (declared first) and one with padding / unassigned bits
    TIES = ["union U { uint32 a; struct { uint8 x; uint16 y; } s; };", "union U { uint16 a; struct { uint16 f : 4; } s; };",
            "union U { uint8 raw[8]; struct { uint8 t; uint32 v; } h; };", "union U { struct { uint8 t; uint32 v; } h; uint8 raw[8]; };",
            "union U { uint64 q; struct { uint32 lo; uint8 hi; } p; uint8 b[8]; };"]
    tie_cases = []
    for ut in TIES:
        for align in (True, False):
            for endian in ("<", ">"):
                tie_cases.append(Case(ut + " struct main { uint8 k; U u; uint8 t; };", endian=endian, align=align, compiled=rng.random() < 0.5))
    # histories: an array type of S exists, S is then extended, and S[n] is used again in a new structure
    for j in range(12):
        base = rng.choice(["uint8 a;", "uint16 a; uint8 b;", "uint32 a;", "char a[3];"])
        cnt = rng.randrange(1, 4)
        extra = rng.choice(["uint8", "uint16", "uint32", "int24"])
        hist = [("array", "S", cnt)] if j % 2 else [("load", f"struct U{j} {{ S x[{cnt}]; }};")]
        hist += [("add_field", "S", "zz", extra, None), ("load", f"struct main {{ uint8 k; S y[{cnt}]; uint16 t; }};")]
        tie_cases.append(Case(f"struct S {{ {base} }};", align=bool(j % 3 == 0), compiled=bool(j % 2), history=hist))
    tie_cases += F.mixed_mode_cases(rng)
    for i in range(n + len(tie_cases)):
        static = i % 3 == 0
        c = F.gen_case(rng, depth=2, unions=(i % 5 == 0), static_only=static, max_fields=6) if i < n else tie_cases[i - n]
        ds = [F.random_data(rng) for _ in range(2)] if i < n else getattr(c, "_datas", None) or [rng.randbytes(24), bytes(range(0x81, 0x99))]
        c.ops = [op for d in ds for op in (("parse", d, 0), ("dump", d, 0))]
        if static and i < n:
            c.ops += [("construct", rng.randrange(1 << 30), False), ("construct", rng.randrange(1 << 30), False), ("construct", rng.randrange(1 << 30), True)]
        try:
            its = build_items(c)
        except RuntimeError as e:
            failures += 1
            run.report("C01/unexpected-exception", {**c.describe(), "ops": [{"op": "parse/dump", "observed": str(e.__cause__ or e)[:300], "expected": "a value or a library error"}]})
            continue
        items += its
        cs, T = getattr(c, "_cs", None), getattr(c, "_T", None)
        if cs is None:
            continue
        for it in its:
            prob = None
            if it.op[0] == "dump" and it.impl and it.impl[0] == "dump":
                n_oracle += 1
                _, r, d = it.impl
                if isinstance(d, Exception):
                    if "union" in c.text and isinstance(d, NotImplementedError):
                        continue     # dynamic unions cannot be written: documented
                    prob = {"observed": f"dumps of a parsed value raises {type(d).__name__}: {d}", "expected": "bytes"}
                elif not has_eof(c.text) or True:
                    prob = roundtrip_problem(cs, T, r[1], d, has_eof(c.text))
                    if prob and has_eof(c.text) and prob.get("what") == "bytes consumed != len(dumps(v))":
                        prob = None   # [EOF] arrays extend to the end of the input by definition
                    if prob and has_eof(c.text) and c.align and (prob.get("what") == "parse(dumps(v)) != v" or str(prob.get("observed", "")).startswith("parsing dumps(v) raises EOFError")):
                        # (the EOFError form: the padding is not a whole number of elements, so the array ends in a partial element)
                        # recorded finding: the tail padding dumps() appends to an aligned structure is swallowed by its trailing [EOF] array.
                        # Only that: without the zero padding the dump must round-trip.
                        for k in range(1, min(len(d), max(T.alignment or 1, 1))):
                            sub = None if any(d[-k:]) else roundtrip_problem(cs, T, r[1], d[:-k], True)
                            if any(d[-k:]) or (sub is not None and sub.get("what") != "bytes consumed != len(dumps(v))"):
                                continue       # (the tail alignment seek past the end of the shortened dump is not a value difference)
                            failures += 1
                            explained.add(id(it))
                            run.report("C01/eof-array-reads-tail-padding", {**c.describe(), "ops": [{"op": "dump", "data": it.op[1].hex(), **prob}]})
                            prob = None
                            break
                if prob:
                    prob["data"] = it.op[1].hex()
            elif it.op[0] == "construct" and it.impl:
                n_oracle += 1
                _, v, d = it.impl
                if it.op[2]:   # an out-of-range integer was planted
                    if not isinstance(d, Exception):
                        back = structs.parse(cs, "main", d, 0)
                        prob = {"observed": "dumps succeeded: " + d.hex(), "expected": "an error: a field holds an integer that does not fit its type",
                                "value": repr(v)[:300], "reparsed": repr(structs.py_value(back[1], T))[:300] if back[0] == "ok" else None}
                elif isinstance(d, Exception):
                    prob = {"observed": f"dumps raises {type(d).__name__}: {d}", "expected": "bytes", "value": repr(v)[:300]}
                else:
                    prob = roundtrip_problem(cs, T, v, d)
                    if prob:
                        prob["value"] = repr(v)[:300]
            if prob and it.op[0] == "dump" and F.is_mixed(c) and F.misaligned_embedded(T) \
                    and prob.get("what") in ("parse(dumps(v)) != v", "bytes consumed != len(dumps(v))"):
                # recorded finding: the tail padding of an aligned structure is computed from the absolute stream position, so an aligned structure that a
                # PACKED structure embeds at an offset that is not a multiple of its alignment dumps to more bytes than its size and the members
                # after it land behind the offsets the reader uses.  Only when the dump is the one the model of the CURRENT writer produces.
                failures += 1
                explained.add(id(it))
                pending_mixed.append((it, {**c.describe(), "ops": [{"op": it.op[0], **prob}]}))
                continue
            if prob:
                failures += 1
                explained.add(id(it))
                kind = "overflow-accepted" if (it.op[0] == "construct" and it.op[2]) else ("union" if "union" in c.text else "roundtrip")
                if kind == "union" and it.op[0] == "dump" and prob.get("what") == "parse(dumps(v)) != v":
                    # recorded finding (root cause: C11/dump-through-largest-member): the dump of the parsed value differs from the parsed bytes
                    # only by CLEARED bits - data of other members that is padding / unassigned bits in the union's largest member
                    orig, out = it.op[1][:it.impl[1][2]], it.impl[2]
                    if len(out) == len(orig) and out != orig and all(o & ~w == 0 for o, w in zip(out, orig)):
                        # ... and only if the dump is the one the model of the CURRENT writer produces (decided after the correspondence ran):
                        # a writer that picks another member is a different, unrecorded behaviour
                        pending.append((it, {**c.describe(), "ops": [{"op": it.op[0], **{k: v for k, v in prob.items()}}]}))
                        continue
                run.report(f"C01/{kind}", {**c.describe(), "ops": [{"op": it.op[0], **{k: v for k, v in prob.items()}}]})

    mism = run_items(run, items)
    bad = {id(m) for m in mism}
    for it, rep in pending:
        run.report("C01/union" if id(it) in bad else "C01/union-dumped-through-largest-member", rep)
    for it, rep in pending_mixed:
        run.report("C01/roundtrip" if id(it) in bad else "C01/aligned-structure-at-unaligned-offset-in-packed-structure", rep)
    report_unexplained(run, mism, explained, "corr_rw (Model.Reader.read_top / Model.Writer.dumps vs the implementation)")
    # LEB128 members: every value near a 7-bit group boundary survives dump + parse, in both signednesses (and the next member stays where it is)
    for compiled in (False, True):
        cs_l = structs.load("struct main { ileb128 s; uleb128 u; uint8 t; };", compiled=compiled)
        vals = sorted(set(list(range(-130, 131)) + [sg * (2 ** k) + dlt for k in (7, 13, 14, 20, 21, 27, 28, 35, 63, 64, 70) for sg in (1, -1) for dlt in (-2, -1, 0, 1, 2)]))
        for v in vals:
            n_oracle += 1
            try:
                out = cs_l.main(s=v, u=abs(v), t=0x5A).dumps()
                back = cs_l.main(out + b"\x00")
                got = (int(back.s), int(back.u), int(back.t))
            except Exception as e:  # noqa: BLE001
                got = f"{type(e).__name__}: {e}"
            if got != (v, abs(v), 0x5A):
                failures += 1
                run.report("C01/leb128-round-trip", {"definition": "struct main { ileb128 s; uleb128 u; uint8 t; };", "load_kwargs": {"compiled": compiled, "align": False},
                           "ops": [{"op": f"construct s={v} u={abs(v)} t=0x5a, dump, parse", "observed": repr(got), "expected": repr((v, abs(v), 0x5A))}]})
                break

    F.obligation_fallback(run, ok, bool(failures or mism))
    F.finish_cov(run, items, mism,
                 "random definitions (scalars, enums/flags, arrays of all four length forms, nested/anonymous structs, bit fields, pointers, every 5th with unions) x "
                 "endianness x pointer width x {packed, aligned} x {compiled, interpreted}; values from parsing random/structured bytes and from direct construction "
                 "(static definitions), one in three constructions with a planted out-of-range integer",
                 {"oracle_only_checks": n_oracle, "oracle_failures": failures})
    run.assumptions += ["float values are those representable in the field's own format; NaN is excluded", "dynamic unions cannot be written (documented): excluded",
                        "flags over signed base types with negative values are a recorded finding (C12) and not generated here"]


def replay(rep: dict) -> int:
    print("re-run: ./check C01 (the replay file holds the definition, configuration and value)")
    return 1
