"""C02 — byte fidelity: parse-then-dump reproduces every data-carrying input byte.

Proof:          coq/Props/C02.v
Correspondence: parse + dump of parsed values vs Model.Reader / Model.Writer (shared with C01, different seeds)
Oracle:         the data-carrying bits are determined INDEPENDENTLY by bit flipping: a bit of the consumed prefix carries
                data iff flipping it changes what parsing returns (value, consumed bytes or failure).  dumps(parse(x)) must
                have the consumed length, equal x on the data-carrying bits and be zero on all other bits.
"""
from __future__ import annotations

import random

from .. import structs
from ..common import Run
from ..structcorr import Case, build_items, report_unexplained, run_items
from . import _family as F
from .C05 import ref_leb_decode, ref_uleb, ref_ileb


def contains_nan(pv) -> bool:
    if pv == ("nan",):
        return True
    if isinstance(pv, (list, tuple)):
        return any(contains_nan(x) for x in pv)
    return False


def observe(cs, T, data: bytes):
    r = structs.parse(cs, "main", data, 0)
    if r[0] != "ok":
        return ("err",)
    try:
        pv = structs.py_value(r[1], T)
    except structs.HasNaN:
        return ("nan",)
    return ("nan",) if contains_nan(pv) else ("ok", pv, r[2])


def fidelity_problem(cs, T, data: bytes, text: str):
    base = observe(cs, T, data)
    if base[0] != "ok":
        return None
    r = structs.parse(cs, "main", data, 0)
    n = r[2]
    try:
        out = r[1].dumps()
    except NotImplementedError:
        return None                     # dynamic unions cannot be written (documented)
    except Exception as e:  # noqa: BLE001
        return {"observed": f"dumps raises {type(e).__name__}: {e}", "expected": "the consumed bytes"}
    if len(out) != n:
        # non-canonical input (non-minimal LEB128) legitimately changes the length: check by re-parsing the dump
        back = observe(cs, T, out)
        if back[0] == "ok" and back[1] == base[1] and ("leb128" in text) and len(out) < n:
            return None                 # (only a SHORTER dump: the input was not minimal; a longer one means the writer is not minimal)
        return {"observed": f"dumps produced {len(out)} bytes", "expected": f"{n} bytes (as many as parsing consumed)", "dump": out.hex()}
    mask = bytearray(n)
    for i in range(min(n, len(data))):        # bytes past the end of the input (the reader sought into tail padding) carry nothing
        for b in range(8):
            flipped = bytearray(data)
            flipped[i] ^= 1 << b
            o = observe(cs, T, bytes(flipped))
            if o[0] == "nan":
                return None             # NaN payloads are outside the statement
            if o != base:
                mask[i] |= 1 << b
    want = bytes(d & m for d, m in zip(data[:n] + bytes(max(0, n - len(data))), mask))
    if out != want:
        diff = [i for i in range(n) if out[i] != want[i]]
        return {"observed": "dump " + out.hex(), "expected": "input on data-carrying bits, zero elsewhere: " + want.hex(),
                "mask": bytes(mask).hex(), "first_differing_byte": diff[0]}
    return None


def check(run: Run) -> None:
    rng = random.Random(f"C02-{run.seed}")
    thorough = run.tier == "thorough"
    ok = run.prove("Props/C02.v")
    items, explained, failures, n_oracle, n_flips = [], set(), 0, 0, 0
    pending = []
    # aligned structures that END in a bit-field unit (full or partly used): the unit is flushed before the tail padding
    FIXED = [Case(t, align=True, compiled=comp, endian=e) for comp in (False, True) for e in ("<", ">") for t in (
        "struct main { uint32 a; uint8 b : 3; uint8 c : 2; };", "struct main { uint32 a; uint8 x; uint8 b : 4; };", "struct main { uint16 a; uint16 b : 9; };",
        "struct main { uint64 a; uint16 b : 16; };", "struct N { uint32 a; uint8 b : 5; };\nstruct main { uint8 k; N n[2]; uint8 t : 1; };")]
    FIXED += F.mixed_mode_cases(rng)
    pending_mixed = []
    n_gen = 1500 if thorough else 260
    for i in range(n_gen + len(FIXED)):
        c = FIXED[i - n_gen] if i >= n_gen else F.gen_case(rng, depth=2, unions=(i % 4 == 0), static_only=(i % 3 == 0), max_fields=5, leb=(i % 6 == 0), floats=(i % 2 == 0))
        ds = getattr(c, "_datas", None) or [F.random_data(rng, rng.choice([4, 8, 12, 20, 28]) if i < n_gen else 40) for _ in range(2)]
        c.ops = [op for d in ds for op in (("parse", d, 0), ("dump", d, 0))]
        try:
            its = build_items(c)
        except RuntimeError as e:
            failures += 1
            run.report("C02/unexpected-exception", {**c.describe(), "ops": [{"op": "parse/dump", "observed": str(e.__cause__ or e)[:300], "expected": "a value or a library error"}]})
            continue
        items += its
        cs, T = getattr(c, "_cs", None), getattr(c, "_T", None)
        if cs is None:
            continue
        for d in ds:
            n_oracle += 1
            prob = fidelity_problem(cs, T, d, c.text)
            if prob:
                failures += 1
                for it in its:
                    explained.add(id(it))
                kind = "union" if "union" in c.text else "struct"
                if F.is_mixed(c) and F.misaligned_embedded(T):
                    # recorded finding (see C01): the tail padding of an aligned structure at an unaligned offset inside a packed one follows the
                    # absolute stream position, so the dump is not the bytes the parse consumed.  Only when the dump is the model's.
                    pending_mixed.append((its, {**c.describe(), "ops": [{"op": "parse+dump", "data": d.hex(), **prob}]}))
                    continue
                if kind == "union" and "mask" in prob:
                    # recorded finding (root cause: C11/dump-through-largest-member): the dump differs from the expected bytes only by
                    # CLEARED bits - data of other members that is padding / unassigned bits in the union's largest member
                    out, want = bytes.fromhex(prob["observed"].split(" ")[1]), bytes.fromhex(prob["expected"].rsplit(" ", 1)[1])
                    if len(out) == len(want) and all(o & ~w == 0 for o, w in zip(out, want)):
                        # ... and only if the dump is what the model of the CURRENT writer produces (decided after the correspondence ran)
                        pending.append((its, {**c.describe(), "ops": [{"op": "parse+dump", "data": d.hex(), **prob}]}))
                        continue
                run.report(f"C02/{kind}", {**c.describe(), "ops": [{"op": "parse+dump", "data": d.hex(), **prob}]})

    # LEB128 at the group boundaries: canonical (minimal) encodings of -2^(7k-1), 2^(7k-1)-1 and neighbours, written here independently
    def sleb(v: int) -> bytes:
        out = bytearray()
        while True:
            b, v = v & 0x7F, v >> 7
            if (v == 0 and not b & 0x40) or (v == -1 and b & 0x40):
                return bytes(out + bytes([b]))
            out.append(b | 0x80)

    def uleb(v: int) -> bytes:
        out = bytearray()
        while True:
            b, v = v & 0x7F, v >> 7
            if v == 0:
                return bytes(out + bytes([b]))
            out.append(b | 0x80)

    leb_text = "struct main { ileb128 a; uleb128 b; ileb128 c[2]; uint8 t; };"
    for k in (1, 2, 3, 5):
        for v in (-(1 << (7 * k - 1)), -(1 << (7 * k - 1)) - 1, (1 << (7 * k - 1)) - 1, 1 << (7 * k - 1), -(1 << (7 * k - 1)) + 1):
            d = sleb(v) + uleb(abs(v)) + sleb(-v) + sleb(v) + b"\x07"
            for endian in ("<", ">"):
                c = Case(leb_text, endian=endian, compiled=bool(k % 2))
                c.ops = [("parse", d, 0), ("dump", d, 0)]
                its = build_items(c)
                items += its
                n_oracle += 1
                prob = fidelity_problem(c._cs, c._T, d, leb_text)
                if prob:
                    failures += 1
                    for it in its:
                        explained.add(id(it))
                    run.report("C02/leb128-boundary", {**c.describe(), "ops": [{"op": "parse+dump", "data": d.hex(), **prob}]})

    # wchar arrays holding characters outside the BMP (surrogate pairs: fewer characters than 16-bit units)
    w_text = "struct main { wchar name[4]; uint8 t; wchar z[]; uint8 u; };"
    for s_ in ("ab\U0001F600", "\U0001F600\U00010000", "abcd"):
        for endian, codec in (("<", "utf-16-le"), (">", "utf-16-be")):
            for compiled in (False, True):
                d = s_.encode(codec) + b"\x07" + "x\U0001F600".encode(codec) + b"\x00\x00\x09"
                c = Case(w_text, endian=endian, compiled=compiled)
                c.ops = [("parse", d, 0), ("dump", d, 0)]
                its = build_items(c)
                items += its
                n_oracle += 1
                prob = fidelity_problem(c._cs, c._T, d, w_text)
                if prob:
                    failures += 1
                    for it in its:
                        explained.add(id(it))
                    run.report("C02/wchar-surrogates", {**c.describe(), "ops": [{"op": "parse+dump", "data": d.hex(), **prob}]})

    mism = run_items(run, items)
    bad = {id(m) for m in mism}
    for its_, rep in pending:
        run.report("C02/union" if any(id(x) in bad for x in its_) else "C02/union-dumped-through-largest-member", rep)
    for its_, rep in pending_mixed:
        run.report("C02/struct" if any(id(x) in bad for x in its_) else "C02/aligned-structure-at-unaligned-offset-in-packed-structure", rep)
    report_unexplained(run, mism, explained, "corr_rw (Model.Reader.read_top / Model.Writer.dumps vs the implementation)")
    # ---- recorded findings (fixed inputs; each is matched only when the dump is exactly the recorded wrong one) ----
    for compiled in (False, True):
        cs_f = structs.load("struct main { float f[]; uint8 x; };", compiled=compiled)
        d = bytes.fromhex("0000803f0000008007")
        out = cs_f.main(d).dumps()
        if out != d:
            failures += 1
            run.report("C02/negative-zero-terminator" if out == bytes.fromhex("0000803f0000000007") else "C02/float-array",
                       {"definition": "struct main { float f[]; uint8 x; };", "load_kwargs": {"compiled": compiled, "align": False}, "ops": [{"op": "parse+dump", "data": d.hex(), "observed": out.hex(), "expected": d.hex()}]})
        cs_u = structs.load("struct main { uint8 _; uint8 x; uint8 _; };", compiled=compiled)
        d = bytes([1, 2, 3])
        out = cs_u.main(d).dumps()
        if out != d:
            failures += 1
            run.report("C02/repeated-underscore-member" if out == bytes([3, 2, 3]) else "C02/underscore-member",
                       {"definition": "struct main { uint8 _; uint8 x; uint8 _; };", "load_kwargs": {"compiled": compiled, "align": False}, "ops": [{"op": "parse+dump", "data": d.hex(), "observed": out.hex(), "expected": d.hex()}]})

    F.obligation_fallback(run, ok, bool(failures or mism))
    F.finish_cov(run, items, mism,
                 "random definitions (all member kinds, every 4th with unions) x endianness x {packed, aligned} x {compiled, interpreted} on inputs of 4..28 bytes; "
                 "for every accepted input the data-carrying bit mask is measured by flipping each consumed bit and re-parsing (independent of writer and model)",
                 {"oracle_only_checks": n_oracle, "oracle_failures": failures})
    run.assumptions += ["canonical encodings only: non-minimal LEB128 and NaN floats are outside the statement", "dynamic unions cannot be written (documented)"]


def replay(rep: dict) -> int:
    c = F.replay_case(rep)
    cs = c.load()
    T = cs.resolve("main")
    d = bytes.fromhex(rep["ops"][0]["data"])
    p = fidelity_problem(cs, T, d, c.text)
    print("input", d.hex(), "->", p or "fidelity holds")
    return 1 if p else 0
