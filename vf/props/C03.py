"""C03 — the compiled reader is observationally equivalent to the interpreted reader.

Proof:          coq/Props/C03.v (the generator is modelled as a plan in Model/Compiler.v; compiled_reader_is_interpreted_reader: the plan
                of a packed structure of scalars and sub-readers is the interpreted loop; the block lemma; format optimisation)
Correspondence: the instruction list parsed out of the REAL generated source (vf/plansrc.py) vs the model's plan; the real compiled
                reader vs the model's read_compiled; the COMPILED reader's results (values, recorded sizes, consumed bytes) and the
                class layout vs Model.Reader / Model.Layout for exhaustive short field sequences over a 24-kind alphabet, set-offset
                histories, mixed modes, endian switches and random definitions
Oracle:         compiled vs interpreted on the implementation itself: equal values, equal _sizes for byte-occupying fields, equal
                stream position, equal layout; on short inputs neither returns a value the other contradicts; a structure the
                generator rejects still parses (fallback)
"""
from __future__ import annotations

import itertools
import random
import re

from .. import structs
from ..common import Run
from ..structcorr import Case, build_items, report_unexplained, run_items
from . import _family as F

PRELUDE = ("enum E8 : uint8 { E8_A = 1, E8_B = 2 }; enum E24 : uint24 { E24_A = 1 }; flag F32 : uint32 { F32_A = 1, F32_B = 2 };\n"
           "struct N { uint8 x; uint32 y; };\n")
# alphabet of field kinds for the exhaustive short sequences: (declaration with {n} = field name)
KINDS = ["uint8 {n};", "uint16 {n};", "uint64 {n};", "int24 {n};", "char {n};", "wchar {n};", "float {n};", "E8 {n};", "E24 {n};", "uint32 *{n};",
         "char {n}[3];", "uint16 {n}[2];", "int24 {n}[2];", "uint32 {n}[0];", "uint8 {n} : 3;", "uint16 {n} : 9;", "N {n};", "uint8 {n}[2][2];",
         "E8 {n}[2];", "E24 {n}[2];", "void {n};", "wchar {n}[2];", "uint8 {n}[p0 & 3];", "char {n}[];"]


def _noaddr(text: str) -> str:
    return re.sub(r" at 0x[0-9a-fA-F]+", "", text)         # object addresses are never compared


def sizes_of(v):
    return dict(v.__dict__.get("_sizes") or {})


def load_both(text, endian, align, pointer, compiled, then=None):
    cs = structs.load(text, endian=endian, pointer=pointer, compiled=compiled, align=align)
    for step in then or []:
        if step[0] == "set_endian":
            cs.endian = step[1]
        elif step[0] == "warm":
            try:
                cs.resolve("main")(bytes.fromhex(step[1]))
            except Exception:  # noqa: BLE001
                pass
        elif step[0] == "warmfirst":       # parse the twin structure `first` before `main` is used
            try:
                cs.resolve("first")(bytes.fromhex(step[1]))
            except Exception:  # noqa: BLE001
                pass
        elif step[0] == "set_pointer":     # cs.pointer reassigned after the definitions were loaded
            cs.pointer = cs.resolve(step[1])
        elif step[0] == "add_field":       # ("add_field", name, type name, bits, offset): a member added to `main` with a set offset
            cs.resolve("main").add_field(step[1], cs.resolve(step[2]), bits=step[3], offset=step[4])
        else:
            t, al = step
            cs.load(t, compiled=compiled, align=al)
    return cs


def compare_readers(text, endian, align, pointer, datas, then=None):
    """Returns list of problem dicts.  `then`: further (text, align) definitions loaded on the same cstruct object."""
    probs = []
    try:
        a = load_both(text, endian, align, pointer, True, then)
        b = load_both(text, endian, align, pointer, False, then)
    except Exception as e:  # noqa: BLE001
        try:
            load_both(text, endian, align, pointer, False, then)
        except Exception:  # noqa: BLE001
            return []     # rejected by the library in both modes (e.g. straddling bit fields)
        return [{"what": "definition loads interpreted but not compiled", "observed": f"{type(e).__name__}: {e}", "expected": "fallback to the interpreted reader"}]
    A, B = a.resolve("main"), b.resolve("main")
    la = ([f.offset for f in A.__fields__], A.size, A.alignment)
    lb = ([f.offset for f in B.__fields__], B.size, B.alignment)
    if la != lb:
        probs.append({"what": "layout", "observed": repr(la), "expected": repr(lb)})
    # every input at start 0; the first two also from a stream that stands at 1 and at 3 (after a short header): an aligned structure then starts
    # off its alignment, and whatever a reader does with the absolute stream position shows
    runs = [(d, 0) for d in datas] + [(bytes([0xEE] * st) + d, st) for d in datas[:2] for st in (1, 3)]
    for d, st0 in runs:
        ra, rb = structs.parse(a, "main", d, st0), structs.parse(b, "main", d, st0)
        try:
            ka = ("ok", structs.py_value(ra[1], A), ra[2]) if ra[0] == "ok" else ("err", type(ra[1]).__name__)
            kb = ("ok", structs.py_value(rb[1], B), rb[2]) if rb[0] == "ok" else ("err", type(rb[1]).__name__)
        except structs.HasNaN:
            continue
        if ka[0] == "ok" and kb[0] == "ok":
            if ka != kb:
                probs.append({"what": "values / consumed bytes", "data": d.hex(), "start": st0, "observed": repr(ka)[:400], "expected": repr(kb)[:400]})
            elif _noaddr(repr(ra[1])) != _noaddr(repr(rb[1])):
                # equal integers, but members of different enum / flag / pointer classes
                probs.append({"what": "values (member classes)", "data": d.hex(), "observed": repr(ra[1])[:400], "expected": repr(rb[1])[:400]})
            else:
                # "recorded sizes for every field that occupies bytes": zero-size entries (void, empty arrays) are not compared
                sa = {k: v for k, v in sizes_of(ra[1]).items() if v}
                sb = {k: v for k, v in sizes_of(rb[1]).items() if v}
                if sa != sb:
                    probs.append({"what": "recorded sizes", "data": d.hex(), "observed": repr(sa), "expected": repr(sb)})
        elif ka[0] != kb[0]:
            # on an input too short for the structure one reader may raise EOFError where the other still returns a value (checked by C08);
            # any other error against a value is a contradiction
            err = ka if ka[0] == "err" else kb
            if err[1] != "EOFError":
                probs.append({"what": "one reader returns a value where the other raises", "data": d.hex(), "observed": repr(ka)[:300], "expected": repr(kb)[:300]})
        elif ka != kb and not {ka[1], kb[1]} <= {"EOFError", "error", "UnicodeDecodeError"}:
            probs.append({"what": "different error classes", "data": d.hex(), "observed": repr(ka), "expected": repr(kb)})
    return probs


def check(run: Run) -> None:
    rng = random.Random(f"C03-{run.seed}")
    thorough = run.tier == "thorough"
    ok = run.prove("Props/C03.v")
    items, explained, failures, n_oracle, n_compiled, n_fallback = [], set(), 0, 0, 0, 0

    texts = []
    # exhaustive: all sequences of 1 and 2 kinds (3 in thorough, sampled), first field named p0 so expressions can refer to it
    seqs = [[k] for k in KINDS] + [list(p) for p in itertools.product(KINDS, repeat=2)]
    trip = [list(p) for p in itertools.product(KINDS, repeat=3)]
    seqs += trip if thorough else rng.sample(trip, 500)
    # sandwiches: every kind between two bit fields of one storage type / between two scalars / after a nested struct
    for k in KINDS:
        seqs += [["uint8 {n} : 3;", k, "uint8 {n} : 3;"], ["uint16 {n} : 9;", k, "uint16 {n} : 4;"], ["uint8 {n};", k, "uint32 {n};"],
                 ["N {n};", k, "uint64 {n};"], ["uint8 {n};", k, "uint8 {n} : 3;"]]
    n_exh = len(seqs)
    INTLIKE = {"uint8 {n};", "uint16 {n};", "uint64 {n};", "int24 {n};", "E8 {n};", "E24 {n};", "uint8 {n} : 3;", "uint16 {n} : 9;"}
    for seq in seqs:
        if "p0" in seq[0] or (any("p0" in k for k in seq[1:]) and seq[0] not in INTLIKE):
            continue
        lines = " ".join(k.format(n=f"p{i}") for i, k in enumerate(seq))
        texts.append(PRELUDE + "struct main { " + lines + " };")
    for i in range(900 if thorough else 200):
        g = structs.Gen(rng, depth=2, unions=(i % 4 == 0), max_fields=8, void=True)
        texts.append(g.build())

    for ti, text in enumerate(texts):
        modes = [("<", False), (">", True)] if ti % 3 else [("<", False), (">", False), ("<", True), (">", True)]
        for endian, align in modes:
            pointer = rng.choice([None, None, "uint32", "uint16", "uint24"])
            datas = [F.random_data(rng, n) for n in (64, 24)] + [bytes(range(1, 65))]
            datas += [datas[0][:k] for k in rng.sample(range(0, 24), 4)]
            n_oracle += len(datas)
            probs = compare_readers(text, endian, align, pointer, datas)
            c = Case(text, endian=endian, align=align, pointer=pointer, compiled=True)
            c.ops = [("layout",), ("plan",)] + [("parse", d, 0) for d in datas[:4]] + [("parse_plan", d, 0) for d in datas[:2] + datas[-2:]]
            try:
                its = build_items(c)
            except RuntimeError as e:
                failures += 1
                run.report("C03/unexpected-exception", {**c.describe(), "ops": [{"op": "parse", "observed": str(e.__cause__ or e)[:300], "expected": "a value or EOFError"}]})
                continue
            items += its
            T = getattr(c, "_T", None)
            if T is not None:
                if getattr(T, "__compiled__", False):
                    n_compiled += 1
                else:
                    n_fallback += 1
            if probs:
                failures += 1
                for it in its:
                    explained.add(id(it))
                run.report("C03/" + probs[0]["what"].split(" ")[0] + ("/aligned" if align else ""), {**c.describe(), "ops": [{"op": "compiled vs interpreted", "problems": probs[:3]}]})

    # two structures of one cstruct object with the same member names and layout whose members are of different enum / flag / pointer classes
    TWINS = ["enum Color : uint8 { RED = 1, GREEN = 2 }; enum Shape : uint8 { ROUND = 1, SQUARE = 2 }; struct first { Color kind; uint8 v; Color ks[2]; }; struct main { Shape kind; uint8 v; Shape ks[2]; };",
             "flag FA : uint16 { FA_X = 1, FA_Y = 2 }; flag FB : uint16 { FB_P = 1, FB_Q = 2 }; struct first { FA f; uint16 t; }; struct main { FB f; uint16 t; };",
             "struct small { uint8 a; }; struct large { uint32 a; uint32 b; }; struct first { small *p; uint8 k; }; struct main { large *p; uint8 k; };"]
    for text in TWINS:
        for order in (0, 1):
            datas = [bytes([1, 2, 1, 2, 0, 0, 0, 0, 9, 9, 9, 9, 9, 9, 9, 9]), bytes([2, 7, 2, 1, 4, 0, 0, 0, 1, 2, 3, 4, 5, 6, 7, 8])]
            warm = [("warmfirst", datas[0].hex())] if order else []
            n_oracle += len(datas)
            probs = compare_readers(text, "<", False, "uint16", datas, then=warm)
            if probs:
                failures += 1
                run.report("C03/" + probs[0]["what"].split(" ")[0] + "/twin-structures", {"definition": text, "cstruct_kwargs": {"endian": "<", "pointer": "uint16"}, "load_kwargs": {"compiled": True, "align": False},
                           "history": [list(w) for w in warm], "ops": [{"op": "compiled vs interpreted", "problems": probs[:3]}]})

    # the byte order is read from the cstruct object at parse time: switch it after loading (and after a first parse)
    n_switch = 0
    sw_texts = [t for t in texts if " : " in t][:: 7][:40] + texts[-40:]
    for ti, text in enumerate(sw_texts):
        e1, e2 = rng.choice([("<", ">"), (">", "<"), ("<", "!")])
        align = bool(ti % 2)
        datas = [F.random_data(rng, 48), bytes(range(1, 49))]
        steps = [("set_endian", e2)] if ti % 3 == 0 else [("warm", datas[0].hex()), ("set_endian", e2)]
        n_oracle += len(datas)
        n_switch += 1
        probs = compare_readers(text, e1, align, None, datas, then=steps)
        c = Case(text, endian=e1, align=align, compiled=True, history=[list(x) for x in steps])
        c.ops = [("plan",)] + [("parse", d, 0) for d in datas] + [("parse_plan", d, 0) for d in datas]
        try:
            its = build_items(c)
        except RuntimeError:
            continue
        items += its
        if probs:
            failures += 1
            for it in its:
                explained.add(id(it))
            run.report("C03/" + probs[0]["what"].split(" ")[0] + "/endian-switch", {**c.describe(), "ops": [{"op": "compiled vs interpreted", "problems": probs[:3]}]})

    # mixed alignment modes on one cstruct object: helper types loaded in one mode, `main` (which embeds them) in the other
    n_mixed = 0
    for k in KINDS:
        for seq in (["uint8 {n};", "N {n};", k], ["uint8 {n};", "N {n}[2];", k], ["N {n};", k], ["uint8 {n};", "uint8 {n};", "N {n}[2][1];", k]):
            if "p0" in k and seq[0] != "uint8 {n};":
                continue
            main = "struct main { " + " ".join(x.format(n=f"p{i}") for i, x in enumerate(seq)) + " };"
            for pa in (True, False):
                endian = rng.choice(["<", ">"])
                datas = [F.random_data(rng, 64), bytes(range(1, 65))] + [bytes(range(1, 65))[:q] for q in rng.sample(range(0, 24), 2)]
                n_oracle += len(datas)
                n_mixed += 1
                probs = compare_readers(PRELUDE, endian, pa, None, datas, then=[(main, not pa)])
                c = Case(PRELUDE, endian=endian, align=pa, compiled=True, history=[("load_align", main, not pa)])
                c.ops = [("layout",), ("plan",)] + [("parse", d, 0) for d in datas[:3]] + [("parse_plan", d, 0) for d in datas[:3]]
                try:
                    its = build_items(c)
                except RuntimeError as e:
                    failures += 1
                    run.report("C03/unexpected-exception", {**c.describe(), "ops": [{"op": "parse", "observed": str(e.__cause__ or e)[:300], "expected": "a value or EOFError"}]})
                    continue
                items += its
                if probs:
                    failures += 1
                    for it in its:
                        explained.add(id(it))
                    run.report("C03/" + probs[0]["what"].split(" ")[0] + "/mixed-modes", {**c.describe(), "ops": [{"op": "compiled vs interpreted", "problems": probs[:3]}]})

    # the pointer type reassigned AFTER loading: sizes and offsets were fixed at load time (both readers agree on the layout); the interpreted reader
    # reads a pointer through cs.pointer at parse time, the compiled reader through the type it was generated with (recorded finding)
    n_ptrsw = 0
    ptr_texts = [t for t in texts if "*" in t][:: 5][: (60 if thorough else 25)]
    for ti, text in enumerate(ptr_texts):
        new_ptr = ["uint32", "uint16", "uint64"][ti % 3]
        datas = [F.random_data(rng, 64), bytes(range(1, 65))]
        n_oracle += len(datas)
        n_ptrsw += 1
        probs = compare_readers(text, "<", False, None, datas, then=[("set_pointer", new_ptr)])
        if probs:
            failures += 1
            baked = True
            try:
                a0, a1 = load_both(text, "<", False, None, True), load_both(text, "<", False, None, True, [("set_pointer", new_ptr)])
                for d in datas:
                    r0, r1 = structs.parse(a0, "main", d, 0), structs.parse(a1, "main", d, 0)
                    k0 = (structs.py_value(r0[1], a0.resolve("main")), r0[2], sizes_of(r0[1])) if r0[0] == "ok" else ("err", type(r0[1]).__name__)
                    k1 = (structs.py_value(r1[1], a1.resolve("main")), r1[2], sizes_of(r1[1])) if r1[0] == "ok" else ("err", type(r1[1]).__name__)
                    baked = baked and k0 == k1
            except Exception:  # noqa: BLE001
                baked = False
            sig = "C03/pointer-type-reassigned-after-load" if baked and all(p_["what"].startswith(("values", "recorded", "one reader")) for p_ in probs) else "C03/values/pointer-switch"
            run.report(sig, {"definition": text, "cstruct_kwargs": {"endian": "<", "pointer": None}, "load_kwargs": {"compiled": True, "align": False},
                             "history": [["set_pointer", new_ptr]], "ops": [{"op": "compiled vs interpreted", "problems": probs[:3]}]})

    # native byte order spellings: '@' and '=' mean the machine's byte order for every type; the layout stays cstruct's own (no native padding)
    n_native = 0
    for ti, text in enumerate(texts[:: max(1, len(texts) // (150 if thorough else 60))]):
        for endian in ("@", "="):
            align = bool(ti % 2)
            datas = [F.random_data(rng, 64), bytes(range(1, 65)), bytes(range(1, 65))[: rng.randrange(0, 24)]]
            n_oracle += len(datas)
            n_native += 1
            probs = compare_readers(text, endian, align, None, datas)
            if probs:
                failures += 1
                run.report("C03/" + probs[0]["what"].split(" ")[0] + "/native-endian", {"definition": text, "cstruct_kwargs": {"endian": endian, "pointer": None},
                           "load_kwargs": {"compiled": True, "align": align}, "history": [], "ops": [{"op": "compiled vs interpreted", "problems": probs[:3]}]})

    # members added with a SET offset (add_field(..., offset=n)): before, at and beyond the end of the previous member, so a run of scalars
    # has to be split, padded or left alone; nested structures and bit fields in between
    n_setoff = 0
    OFF_TYPES = ["uint8", "uint16", "uint32", "char", "int24", "N", "E8", "float"]
    for i in range(400 if thorough else 120):
        k = rng.randrange(1, 5)
        adds, run_off = [], 2
        for j in range(k):
            tn = rng.choice(OFF_TYPES)
            off = rng.choice([None, None, run_off, max(0, run_off - rng.randrange(1, 4)), run_off + rng.randrange(1, 4), rng.randrange(0, 12)])
            bits = rng.choice([3, 5]) if tn in ("uint8", "uint16") and rng.random() < 0.15 else None
            adds.append(("add_field", f"f{j}", tn, bits, off))
            run_off = (off if off is not None else run_off) + {"uint8": 1, "uint16": 2, "uint32": 4, "char": 1, "int24": 3, "N": 5, "E8": 1, "float": 4}[tn]
        text = PRELUDE + "struct main { uint16 a; };"
        align = i % 5 == 0
        endian = rng.choice(["<", ">"])
        datas = [F.random_data(rng, 40), bytes(range(1, 41))] + [bytes(range(1, 41))[:q] for q in rng.sample(range(0, 16), 2)]
        n_oracle += len(datas)
        n_setoff += 1
        probs = compare_readers(text, endian, align, None, datas, then=adds)
        c = Case(text, endian=endian, align=align, compiled=True, history=[["add_field", "main", a[1], a[2], a[3], a[4]] for a in adds])
        c.ops = [("layout",), ("plan",)] + [("parse", d, 0) for d in datas[:3]] + [("parse_plan", d, 0) for d in datas]
        try:
            its = build_items(c)
        except RuntimeError as e:
            failures += 1
            run.report("C03/unexpected-exception", {**c.describe(), "ops": [{"op": "parse", "observed": str(e.__cause__ or e)[:300], "expected": "a value or EOFError"}]})
            continue
        items += its
        if probs:
            failures += 1
            for it in its:
                explained.add(id(it))
            run.report("C03/" + probs[0]["what"].split(" ")[0] + "/set-offsets", {**c.describe(), "ops": [{"op": "compiled vs interpreted", "problems": probs[:3]}]})

    IMPORTS = "Model.Writer Model.Compiler"
    mism = run_items(run, items, imports=IMPORTS)
    report_unexplained(run, mism, explained, "corr_compiled (compiled reader vs Model.Reader / Model.Layout; generated source vs Model.Compiler)", imports=IMPORTS)
    F.obligation_fallback(run, ok, bool(failures or mism))
    F.finish_cov(run, items, mism,
                 "exhaustive: every sequence of 1 and 2 field kinds (and %s of 3) over a 24-kind alphabet {packed ints, int24, char, wchar, float, enums over packed and "
                 "byte-sliced bases, pointer, char/int/int24/enum/wchar arrays, zero-length array, bit fields, nested struct, 2-dimensional array, void, expression-sized and "
                 "null-terminated arrays} x endianness x {packed, aligned} x pointer width; plus random definitions; inputs: full, structured and truncated"
                 % ("all" if thorough else "500 sampled"),
                 {"oracle_only_checks": n_oracle, "definitions": len(texts), "exhaustive_sequences": n_exh, "classes_compiled": n_compiled, "classes_fallen_back": n_fallback,
                  "oracle_failures": failures, "mixed_alignment_mode_cases": n_mixed, "endian_switch_cases": n_switch, "set_offset_cases": n_setoff, "native_endian_cases": n_native, "pointer_reassigned_cases": n_ptrsw}, exhaustive=True)
    run.assumptions += ["NaN floats are not compared", "unions are never compiled (Compiler.compile returns them unchanged): they take part as members only",
                        "vf/plansrc.py parses the generated source text into instructions (fail-closed: an unknown statement is a broken correspondence); "
                        "the object-construction expressions around the getters are not parsed, their effect is held to the model by the read_compiled comparison"]


def replay(rep: dict) -> int:
    c = F.replay_case(rep)
    probs = rep["ops"][0].get("problems") or []
    datas = [bytes.fromhex(p["data"]) for p in probs if "data" in p] or [bytes(range(1, 65))]
    then = [(h[1], h[2]) if h[0] == "load_align" else (("add_field", h[2], h[3], h[4], h[5] if len(h) > 5 else None) if h[0] == "add_field" else tuple(h))
            for h in c.history if h[0] in ("load_align", "set_endian", "warm", "warmfirst", "add_field", "set_pointer")]
    now = compare_readers(c.text, c.endian, c.align, c.pointer, datas, then=then)
    print("compiled vs interpreted:", now or "equivalent on the replayed inputs")
    return 1 if now else 0
