"""C04 — structure layout follows C rules; declared size equals bytes read and written.

Proof:          coq/Props/C04.v (layout_is_c and the meaning of the C rule; padding lemmas)
Tie 1:          type table (sizes/alignments of all built-ins) -> type_table_ok
Correspondence: layout (size, alignment, every field offset), parse and dump of fixed-size definitions x
                {packed, aligned} x pointer width, vs Model.Layout / Reader / Writer
Oracle:         an independent Python C-layout calculator; ctypes (the platform ABI) for the expressible subset;
                len(T) == sizeof(T) in expressions == bytes consumed == bytes dumped
"""
from __future__ import annotations

import ctypes
import random

from .. import structs
from ..common import Run
from . import _family as F
from ..structcorr import Case, build_items, report_unexplained, run_items

CT = {"int8": ctypes.c_int8, "uint8": ctypes.c_uint8, "int16": ctypes.c_int16, "uint16": ctypes.c_uint16, "int32": ctypes.c_int32,
      "uint32": ctypes.c_uint32, "int64": ctypes.c_int64, "uint64": ctypes.c_uint64, "float": ctypes.c_float, "double": ctypes.c_double,
      "char": ctypes.c_char}


def c_layout_ref(T, aligned: bool):
    """Independent calculator: (offsets, size, alignment) by the textbook rule, or None if outside its domain."""
    from dissect.cstruct.types import BaseArray, Structure, Union

    def size_align(t):
        if issubclass(t, BaseArray):
            if not isinstance(t.num_entries, int):
                return None
            sa = size_align(t.type)
            return None if sa is None else (sa[0] * t.num_entries, sa[1])
        if issubclass(t, Union):
            sas = [size_align(f.type) for f in t.__fields__]
            if any(x is None for x in sas) or any(f.bits for f in t.__fields__):
                return None
            al = max([a for _, a in sas] + [0])
            sz = max([s for s, _ in sas] + [0])
            if aligned and al:
                sz = (sz + al - 1) // al * al
            return (sz, al)
        if issubclass(t, Structure):
            r = struct_layout(t)
            return None if r is None else (r[1], r[2])
        if t.size is None:
            return None
        return (t.size, t.alignment or 1)

    def struct_layout(t):
        off, al, offs = 0, 0, []
        for f in t.__fields__:
            if f.bits:
                return None
            sa = size_align(f.type)
            if sa is None:
                return None
            s, a = sa
            a = a or 1
            if aligned:
                off = (off + a - 1) // a * a
            offs.append(off)
            off += s
            al = max(al, a)
        if aligned and al:
            off = (off + al - 1) // al * al
        return (offs, off, al)

    if issubclass(T, Union):
        sa = size_align(T)
        return None if sa is None else ([None] * len(T.__fields__), sa[0], sa[1])
    return struct_layout(T)


def to_ctypes(T, aligned: bool):
    """The same declaration as a ctypes Structure/Union, or None when not expressible."""
    from dissect.cstruct.types import BaseArray, Enum, Flag, Pointer, Structure, Union

    def conv(t):
        if issubclass(t, BaseArray):
            if not isinstance(t.num_entries, int):
                return None
            e = conv(t.type)
            return None if e is None else e * t.num_entries
        if issubclass(t, (Enum, Flag)):
            return conv(t.type)
        if issubclass(t, Pointer):
            return ctypes.c_void_p if t.size == 8 else None
        if issubclass(t, Structure):
            fields = []
            for f in t.__fields__:
                if f.bits:
                    return None
                c = conv(f.type)
                if c is None:
                    return None
                fields.append((f._name, c))
            base = ctypes.Union if issubclass(t, Union) else ctypes.Structure
            ns = {"_fields_": fields}
            if not aligned:
                ns = {"_pack_": 1, "_fields_": fields}
            return type(t.__name__, (base,), ns)
        return CT.get(t.__name__)

    return conv(T)


def check(run: Run) -> None:
    rng = random.Random(f"C04-{run.seed}")
    thorough = run.tier == "thorough"
    ok = run.prove("Props/C04.v")

    cases: list[Case] = []
    n = 1500 if thorough else 260
    for i in range(n):
        g = structs.Gen(rng, static_only=True, bits=(i % 4 == 0), unions=True, depth=2, max_fields=7, floats=True, wchar=True)
        text = g.build()
        for align in (False, True):
            ptr = rng.choice([None, None, "uint32", "uint16", "uint8"])
            c = Case(text, align=align, pointer=ptr, endian=rng.choice("<>"), compiled=rng.random() < 0.5)
            cases.append(c)
    # hand-picked shapes the C rule is usually got wrong on
    for text in ["struct main { uint8 a; uint64 b; uint8 c; };", "struct main { uint8 a; int24 b; uint8 c; int48 d; uint8 e; int128 f; };",
                 "struct S { uint8 x; uint32 y; }; struct main { uint8 a; S s[2]; uint16 t; };",
                 "struct main { uint8 a; union { uint64 q; uint8 r[3]; } u; uint8 z; };",
                 "struct main { char a[3]; uint16 b[2]; wchar c; double d; float16 e; };",
                 "struct main { uint8 a; void *p; uint8 b; };", "struct main { };", "struct main { uint8 a[0]; uint64 b; };",
                 "union main { uint8 a; uint64 b[2]; uint32 c[5]; };", "struct main { uint8 a; struct { uint8 b; uint64 c; }; uint8 d; };"]:
        for align in (False, True):
            for ptr in (None, "uint32"):
                cases.append(Case(text, align=align, pointer=ptr))

    # histories: an array type of S is requested, S is then extended, and S[n] is used again
    for i in range(120 if thorough else 30):
        base = rng.choice(["uint8 a;", "uint16 a; uint8 b;", "uint32 a;", "char a[3];", "uint8 a; uint64 b;"])
        n = rng.randrange(1, 5)
        extra = rng.choice(["uint8", "uint16", "uint32", "uint64", "int24"])
        hist = [("array", "S", n)] if rng.random() < 0.5 else [("load", f"struct U{i} {{ S x[{n}]; }};")]
        hist += [("add_field", "S", "zz", extra, None), ("load", f"struct main {{ uint8 k; S y[{n}]; uint16 t; }};")]
        for align in (False, True):
            cases.append(Case(f"struct S {{ {base} }};", align=align, compiled=rng.random() < 0.5, history=hist))

    # histories: the pointer width is reconfigured between two definitions that use pointers to the same target types
    for pw1, pw2 in (("uint64", "uint32"), ("uint16", "uint64"), ("uint32", "uint8")):
        for tgt in ("char", "uint32", "S"):
            for align in (False, True):
                cases.append(Case(f"struct S {{ uint8 a; }}; struct first {{ {tgt} *p; uint8 k; }};", align=align, pointer=pw1, compiled=rng.random() < 0.5,
                                  history=[("set_pointer", pw2), ("load", f"struct main {{ uint8 k; {tgt} *p; uint16 t; {tgt} *q[2]; }};")]))

    # mixed alignment modes on one cstruct object (helper type in one mode, `main` in the other): only the agreement of the size notions is
    # judged for these (the reference layouts below assume one mode throughout)
    cases += F.mixed_mode_cases(rng, static_only=True)

    items, failures, n_ct, n_ref, n_sizes = [], 0, 0, 0, 0
    explained: set = set()
    pending_mixed = []
    for c in cases:
        try:
            cs = c.load()
            T = cs.resolve("main")
        except Exception:  # noqa: BLE001 - rejected definitions (straddling bit fields) are not C04's subject
            continue
        size = T.size
        if size is None:
            continue
        data = rng.randbytes(size + rng.choice([0, 0, 3]))
        c.ops = [("layout",), ("parse", data, 0), ("dump", data, 0)]
        its = build_items(c)
        items += its
        # ---- oracle ----
        problems = []
        mixed = F.is_mixed(c)
        ref = None if mixed else c_layout_ref(T, c.align)
        from dissect.cstruct.types import Union

        if ref is not None:
            n_ref += 1
            offs = [f.offset for f in T.__fields__]
            if not issubclass(T, Union) and offs != ref[0]:
                problems.append({"what": "field offsets", "observed": offs, "expected": ref[0]})
            if T.size != ref[1]:
                problems.append({"what": "size", "observed": T.size, "expected": ref[1]})
            if (T.alignment or 0) != ref[2]:
                problems.append({"what": "alignment", "observed": T.alignment, "expected": ref[2]})
        ct = to_ctypes(T, c.align) if (cs.pointer.size == 8 and not mixed) else None
        if ct is not None and not issubclass(T, Union) or (ct is not None and issubclass(T, Union)):
            n_ct += 1
            if ctypes.sizeof(ct) != T.size and len(T.__fields__) > 0:
                problems.append({"what": "size vs ctypes (platform ABI)", "observed": T.size, "expected": ctypes.sizeof(ct)})
            if c.align and len(T.__fields__) > 0 and ctypes.alignment(ct) != (T.alignment or 1):
                problems.append({"what": "alignment vs ctypes", "observed": T.alignment, "expected": ctypes.alignment(ct)})
            if not issubclass(T, Union):
                for f in T.__fields__:
                    co = getattr(ct, f._name).offset
                    if co != f.offset:
                        problems.append({"what": f"offset of {f._name} vs ctypes", "observed": f.offset, "expected": co})
        # all size notions agree
        n_sizes += 1
        r = structs.parse(cs, "main", data, 0)
        if r[0] == "ok":
            if r[2] != size:
                problems.append({"what": "bytes consumed vs len(T)", "observed": r[2], "expected": size})
            try:
                d = r[1].dumps()
                if len(d) != size:
                    problems.append({"what": "bytes dumped vs len(T)", "observed": len(d), "expected": size})
            except Exception as e:  # noqa: BLE001  (writer defects are C01/C06's subject; size agreement cannot be judged)
                pass
        else:
            if not isinstance(r[1], UnicodeDecodeError):   # random bytes may be lone surrogates: a legitimate rejection
                problems.append({"what": "parsing len(T) bytes", "observed": repr(r[1]), "expected": "a value"})
        try:
            from dissect.cstruct.expression import Expression

            sz = Expression(cs, "sizeof(main)").evaluate()
            if sz != size:
                problems.append({"what": "sizeof(main) in an expression", "observed": sz, "expected": size})
        except Exception as e:  # noqa: BLE001
            problems.append({"what": "sizeof(main)", "observed": repr(e), "expected": size})
        if problems and mixed and F.misaligned_embedded(T) and all(p["what"] in ("bytes dumped vs len(T)", "bytes consumed vs len(T)") or (p["what"] == "parsing len(T) bytes" and p["observed"].startswith("EOFError")) for p in problems):
            # recorded finding (see C01): an aligned structure at an unaligned offset inside a packed one pads its tail on the ABSOLUTE stream
            # position, in its reader and its writer: the dump is longer than the declared size, a parse consumes more or less than it, an array
            # of such structures needs more input than len(T).  Only when reader and writer do what the model of the current code does.
            failures += 1
            for it in its:
                explained.add(id(it))
            pending_mixed.append((its, {**c.describe(), "ops": [{"op": "layout+parse+dump", "data": data.hex(), "problems": problems}]}))
            continue
        if problems:
            failures += 1
            for it in its:
                explained.add(id(it))
            comp_sig = "compiled-aligned-block" if (c.compiled and c.align and any("consumed" in p["what"] for p in problems)) else problems[0]["what"].split(" ")[0]
            run.report(f"C04/{comp_sig}", {**c.describe(), "ops": [{"op": "layout+parse+dump", "data": data.hex(), "problems": problems}]})

    mism = run_items(run, items)
    bad_ids = {id(m) for m in mism}
    for its_, rep in pending_mixed:
        run.report("C04/bytes" if any(id(x) in bad_ids for x in its_) else "C04/aligned-structure-at-unaligned-offset-in-packed-structure", rep)
    report_unexplained(run, mism, explained, "corr_layout (Model.Layout.type_layout / Reader / Writer vs the loaded class)")
    if not ok and not failures and not mism:
        pf = run.proof_failure
        run.violation({"kind": "obligation", "theorem_or_correspondence": pf.get("lemma"), **pf}, tag="obligation-" + str(pf.get("lemma")), no_input=True)

    cov = run.coverage
    live = [it for it in items if it.expr]
    cov["evaluations"] = len(live)
    cov["distinct_nontrivial"] = len({(it.case.text, it.case.align, it.case.pointer) for it in live if len(it.case.text) > 30})
    cov["traces_validated_against_impl"] = len(live) - len(mism)
    cov["rule"] = ("random fixed-size definitions (scalars incl. int24/48/128, floats, char/wchar, enums, pointers, 1-2 dimensional arrays, nested and "
                   "anonymous structs and unions; every 4th with bit fields) x {packed, aligned} x pointer width x endianness x compiled/interpreted, plus "
                   "hand-picked shapes; each: layout + parse + dump compared with the model. non-trivial = distinct (definition, mode, pointer)")
    cov["distribution"] = {"definitions": len(cases), "checked_against_independent_C_rule": n_ref, "checked_against_ctypes": n_ct,
                           "size_agreement_checks": n_sizes, "oracle_failures": failures, "correspondence_mismatches": len(mism)}
    cov["samples"] = [{"definition": it.case.text[-200:], "align": it.case.align, "impl": repr(it.impl)[:160]} for it in live[:3]]
    run.assumptions += ["alignments of built-in types are those checked by type_table_ok; user-added custom types are outside",
                        "ctypes stands for the platform C ABI (x86-64 SysV) for the expressible subset"]


def replay(rep: dict) -> int:
    c = Case(rep["definition"], align=rep["load_kwargs"]["align"], compiled=rep["load_kwargs"]["compiled"],
             endian=rep["cstruct_kwargs"]["endian"], pointer=rep["cstruct_kwargs"]["pointer"],
             history=[tuple(h) for h in rep.get("history", [])])
    cs = c.load()
    T = cs.resolve("main")
    ref = c_layout_ref(T, c.align)
    offs = [f.offset for f in T.__fields__]
    print("offsets", offs, "size", T.size, "alignment", T.alignment, "| C rule:", ref)
    data = bytes.fromhex(rep["ops"][0]["data"])
    r = structs.parse(cs, "main", data, 0)
    bad = (ref is not None and (T.size != ref[1])) or (r[0] == "ok" and r[2] != T.size) or r[0] != "ok"
    print("property", "FAILS" if bad else "holds", "on this replay")
    return 1 if bad else 0
