"""C05 — scalar codecs implement the standard encodings under the current endianness.

Proof:          coq/Props/C05.v (int_roundtrip, int_bytes_roundtrip, int_decode_range, int_reject, be_is_rev_le,
                uleb/ileb_roundtrip, utf16_roundtrip, ...)
Tie 1:          type_table (every built-in and alias: kind, size, alignment, pack char), endianness_map,
                wchar_encoding_map, resolve_bound  -> obligations in Gen/GeneratedOk.v
Correspondence: histories of read / write / set-endian on one cstruct object for every name of the live type
                table x {<, >, !}, model = Model.Prim.run_sops evaluated in coqc
Oracle:         positional-sum / two's-complement, surrogate arithmetic, canonical LEB128, IEEE fields — written here
                independently of both the implementation and the model
"""
from __future__ import annotations

import io
import math
import random

from .. import canon
from ..common import Run, clist, cnat, cstr, cz, run_shards

ENDIANS = ["<", ">", "!"]


# ---------------- independent references ----------------
def ref_int_decode(bs: bytes, endian: str, signed: bool) -> int:
    seq = bs if endian == "<" else bs[::-1]
    v = sum(b << (8 * i) for i, b in enumerate(seq))
    if signed and bs and v >= 1 << (8 * len(bs) - 1):
        v -= 1 << (8 * len(bs))
    return v


def ref_int_encode(v: int, n: int, endian: str, signed: bool):
    lo, hi = (-(1 << (8 * n - 1)), 1 << (8 * n - 1)) if signed else (0, 1 << (8 * n))
    if n == 0:
        lo, hi = 0, 1
    if not (lo <= v < hi):
        return None
    u = v % (1 << (8 * n)) if n else 0
    seq = bytes((u >> (8 * i)) & 0xFF for i in range(n))
    return seq if endian == "<" else seq[::-1]


def ref_uleb(v: int) -> bytes:
    out = bytearray()
    while True:
        b = v & 0x7F
        v >>= 7
        if v:
            out.append(b | 0x80)
        else:
            out.append(b)
            return bytes(out)


def ref_ileb(v: int) -> bytes:
    out = bytearray()
    while True:
        b = v & 0x7F
        v >>= 7
        done = (v == 0 and not b & 0x40) or (v == -1 and b & 0x40)
        out.append(b if done else b | 0x80)
        if done:
            return bytes(out)


def ref_leb_decode(bs: bytes, signed: bool):
    v = 0
    for i, b in enumerate(bs):
        v |= (b & 0x7F) << (7 * i)
        if not b & 0x80:
            if signed and b & 0x40:
                v -= 1 << (7 * (i + 1))
            return v, i + 1
    return None


def ref_utf16(cps: list[int], endian: str):
    out = bytearray()
    for c in cps:
        if c < 0 or c > 0x10FFFF or 0xD800 <= c <= 0xDFFF:
            return None
        units = [c] if c < 0x10000 else [0xD800 + ((c - 0x10000) >> 10), 0xDC00 + ((c - 0x10000) & 0x3FF)]
        for u in units:
            out += bytes([u & 0xFF, u >> 8]) if endian == "<" else bytes([u >> 8, u & 0xFF])
    return bytes(out)


# ---------------- type table of the live implementation ----------------
def live_types():
    from dissect.cstruct import cstruct
    from dissect.cstruct.types import LEB128, Char, Int, Packed, Void, Wchar

    cs = cstruct()
    out = {}
    for name in cs.typedefs:
        t = cs.resolve(name)
        if issubclass(t, Packed):
            kind = "float" if issubclass(t, float) else "int"
            signed = t.packchar.islower() if kind == "int" else None
        elif issubclass(t, Int):
            kind, signed = "int", t.signed
        elif issubclass(t, Char):
            kind, signed = "char", None
        elif issubclass(t, Wchar):
            kind, signed = "wchar", None
        elif issubclass(t, LEB128):
            kind, signed = "leb", t.signed
        elif issubclass(t, Void):
            kind, signed = "void", None
        else:
            raise RuntimeError(f"unknown builtin {name}")
        out[name] = (kind, t.size, signed)
    return out


# ---------------- case generation ----------------
def int_values(n: int, signed: bool, rng: random.Random) -> list[int]:
    w = 8 * n
    vs = [0, 1, -1, 2, 127, 128, 255, 256, (1 << (w - 1)) - 1, 1 << (w - 1), (1 << w) - 1, 1 << w, -(1 << (w - 1)), -(1 << (w - 1)) - 1,
          (1 << w) + 5, -(1 << w)]
    vs += [rng.randrange(-(1 << w), 1 << (w + 1)) for _ in range(3)]
    return vs


def byte_patterns(n: int, rng: random.Random) -> list[bytes]:
    pats = [bytes(n), b"\xff" * n, b"\x80" + bytes(n - 1) if n else b"", bytes(n - 1) + b"\x80" if n else b"", bytes(range(1, n + 1)),
            b"\x7f" + b"\xff" * (n - 1) if n else b"", b"\xff" * (n - 1) + b"\x7f" if n else b""]
    pats += [rng.randbytes(n) for _ in range(3)]
    return pats


def float_bit_patterns(n: int, rng: random.Random) -> list[int]:
    eb, mb = canon.FLOAT_PARAMS[n]
    top = 1 << (8 * n - 1)
    pats = [0, top, 1, top | 1, (1 << mb) - 1, 1 << mb, ((1 << eb) - 1) << mb, top | (((1 << eb) - 1) << mb),
            (((1 << eb) - 1) << mb) | 1, ((1 << (eb - 1)) - 1) << mb, (((1 << eb) - 2) << mb) | ((1 << mb) - 1)]
    pats += [rng.randrange(0, 1 << (8 * n)) for _ in range(6)]
    return pats


def wchar_strings(rng: random.Random) -> list[list[int]]:
    return [[0x41], [0], [0xFFFF], [0xD7FF], [0xE000], [0xD800], [0xDFFF], [0x10000], [0x10FFFF], [0x1F600], [rng.randrange(0, 0x11000)]]


def gen_ops(name: str, info, endian: str, rng: random.Random) -> list[tuple]:
    """One batch of operations exercising one type under one endianness."""
    kind, size, signed = info
    ops = []
    if kind == "int":
        for b in byte_patterns(size, rng):
            extra = rng.choice([b"", b"", b"\xaa", b"\x01\x02\x03"])
            ops.append(("read", name, b + extra))
        ops.append(("read", name, rng.randbytes(max(0, size - 1))))       # short
        for v in int_values(size, signed, rng):
            ops.append(("write", name, ("int", v)))
    elif kind == "float":
        for bits in float_bit_patterns(size, rng):
            bs = ref_int_encode(bits, size, "<" if endian == "<" else ">", False)
            ops.append(("read", name, bs + rng.choice([b"", b"\x00"])))
            x = canon.float_of_bits(size, bits)
            if not math.isnan(x):
                ops.append(("write", name, ("float", size, bits)))
        ops.append(("read", name, bytes(size - 1)))
    elif kind == "char":
        for b in (b"A", b"\x00", b"\xff", b"", b"AB"):
            ops.append(("read", name, b))
        for b in (b"A", b"\x00", b"\xff"):
            ops.append(("write", name, ("bytes", b)))
    elif kind == "wchar":
        for cps in wchar_strings(rng):
            enc = ref_utf16(cps, "<" if endian == "<" else ">")
            if enc is not None and len(enc) == 2:
                ops.append(("read", name, enc + rng.choice([b"", b"zz"])))
            ops.append(("write", name, ("wstr", cps)))
        for raw in (b"\x00\xd8", b"\xd8\x00", b"\x00\xdc", b"\xdc\x00", b"A", b""):
            ops.append(("read", name, raw))
    elif kind == "leb":
        vals = [0, 1, 63, 64, 127, 128, 255, 16383, 16384, 2 ** 32, 2 ** 64 - 1, 2 ** 70 + 3, -1, -63, -64, -65, -128, -8192, -8193, -2 ** 20, -2 ** 63,
                rng.randrange(-2 ** 40, 2 ** 40)]
        for v in vals:
            ops.append(("write", name, ("int", v)))
            enc = (ref_ileb(v) if signed else ref_uleb(v)) if (signed or v >= 0) else None
            if enc is not None:
                ops.append(("read", name, enc + rng.choice([b"", b"\x05"])))
        for raw in (b"", b"\x80", b"\xff\xff", b"\x80\x00", b"\xff\x7f", b"\xff\x00", b"\x80\x80\x80\x00"):   # truncated / non-minimal
            ops.append(("read", name, raw))
    else:  # void
        ops.append(("read", name, b"abc"))
        ops.append(("read", name, b""))
    return ops


# ---------------- implementation runner ----------------
def run_impl(endian0: str, ops: list[tuple], types) -> list[tuple]:
    from dissect.cstruct import cstruct

    cs = cstruct(endian=endian0)
    outs = []
    for op in ops:
        if op[0] == "endian":
            cs.endian = op[1]
            outs.append(("none",))
            continue
        T = cs.resolve(op[1])
        kind, size, signed = types[op[1]]
        if op[0] == "read":
            st = io.BytesIO(op[2])
            try:
                v = T.read(st)
                outs.append(("read", kind, size, v, st.tell()))
            except Exception as e:  # noqa: BLE001
                outs.append(("err_read", e))
        else:
            val = op[2]
            try:
                if val[0] == "int":
                    pv = val[1]
                elif val[0] == "float":
                    pv = canon.float_of_bits(val[1], val[2])
                elif val[0] == "bytes":
                    pv = val[1]
                else:
                    pv = "".join(chr(c) for c in val[1])
                outs.append(("write", T.dumps(pv)))
            except Exception as e:  # noqa: BLE001
                outs.append(("err_write", e))
    return outs


# ---------------- Coq rendering ----------------
def cvalue(val) -> str:
    if val[0] == "int":
        return f"(VInt {cz(val[1])})"
    if val[0] == "float":
        return f"(VFloat {cz(val[2])})"
    if val[0] == "bytes":
        return f"(VBytes {canon.cbytes(val[1])})"
    return f"(VWstr {clist((cz(c) for c in val[1]), 'Z')})"


def cop(op) -> str:
    if op[0] == "endian":
        return f"(SSetEndian {cstr(op[1])})"
    if op[0] == "read":
        return f"(SRead {cstr(op[1])} {canon.cbytes(op[2])})"
    return f"(SWrite {cstr(op[1])} {cvalue(op[2])})"


def cexpect(o) -> str:
    if o[0] == "none":
        return "XNone"
    if o[0] == "read":
        _, kind, size, v, n = o
        if kind == "float":
            return f"(XFloat {cnat(size)} {canon.cfobs(float(v))} {cz(n)})"
        if kind == "int" or kind == "leb":
            cv = f"(VInt {cz(int(v))})"
        elif kind == "char":
            cv = f"(VBytes {canon.cbytes(bytes(v))})"
        elif kind == "wchar":
            cv = f"(VWstr {canon.ccps(str(v))})"
        else:
            cv = "VVoid"
        return f"(XRead (Ok ({cv}, {cz(n)})))"
    if o[0] == "err_read":
        return f"(XRead {canon.cerr(o[1])})"
    if o[0] == "write":
        return f"(XWrite (Ok {canon.cbytes(o[1])}))"
    return f"(XWrite {canon.cerr(o[1])})"


# ---------------- oracle ----------------
def oracle(endian0: str, ops, outs, types):
    """Yield (signature, description) for every operation that violates the statement."""
    cur = endian0
    for op, o in zip(ops, outs):
        if op[0] == "endian":
            cur = op[1]
            continue
        kind, size, signed = types[op[1]]
        e = "<" if cur == "<" else ">"
        bad = None
        if op[0] == "read" and o[0] == "read":
            data = op[2]
            if kind == "int":
                want = (ref_int_decode(data[:size], e, signed), size)
                got = (int(o[3]), o[4])
            elif kind == "float":
                bits = ref_int_decode(data[:size], e, False)
                x = canon.float_of_bits(size, bits)
                want = ("nan" if math.isnan(x) else (x, math.copysign(1, x)), size)
                got = ("nan" if math.isnan(o[3]) else (float(o[3]), math.copysign(1, o[3])), o[4])
            elif kind == "leb":
                want = ref_leb_decode(data, signed)
                got = (int(o[3]), o[4])
            elif kind == "char":
                want, got = (data[:1], 1), (bytes(o[3]), o[4])
            elif kind == "wchar":
                want = None
                got = (str(o[3]), o[4])
                for c in range(0x110000) if False else []:
                    pass
                u = ref_int_decode(data[:2], e, False)
                want = (chr(u), 2) if not 0xD800 <= u <= 0xDFFF else ("<error>", 2)
            else:
                want = got = None
            if want != got:
                bad = {"observed": repr(got), "expected": repr(want)}
        elif op[0] == "read" and o[0] == "err_read":
            data = op[2]
            short = (size is not None and len(data) < size) or (kind == "leb" and ref_leb_decode(data, signed) is None)
            lone = kind == "wchar" and len(data) >= 2 and 0xD800 <= ref_int_decode(data[:2], e, False) <= 0xDFFF
            if not short and not lone:
                bad = {"observed": f"raises {type(o[1]).__name__}", "expected": "a value"}
            elif short and not isinstance(o[1], EOFError):
                bad = {"observed": f"raises {type(o[1]).__name__}", "expected": "EOFError"}
        elif op[0] == "write":
            val = op[2]
            if kind == "int" and val[0] == "int":
                want = ref_int_encode(val[1], size, e, signed)
            elif kind == "float":
                want = ref_int_encode(val[2], size, e, False)
            elif kind == "leb":
                want = None if (val[1] < 0 and not signed) else (ref_ileb(val[1]) if signed else ref_uleb(val[1]))
            elif kind == "char":
                want = val[1]
            elif kind == "wchar":
                want = ref_utf16(val[1], e)
            else:
                want = b""
            got = o[1] if o[0] == "write" else None
            if want != got:
                bad = {"observed": got.hex() if got is not None else f"raises {type(o[1]).__name__}",
                       "expected": want.hex() if want is not None else "an error (value does not fit / not encodable)"}
        if bad:
            yield (f"C05/{kind}/{op[0]}", {"endian": cur, "type": op[1], "op": op[0],
                                           "input": op[2].hex() if op[0] == "read" else repr(op[2]), **bad})


def check(run: Run) -> None:
    rng = random.Random(f"C05-{run.seed}")
    thorough = run.tier == "thorough"
    types = live_types()
    ok = run.prove("Props/C05.v")

    cases = []   # (endian0, ops)
    for name, info in types.items():
        for e in ENDIANS:
            reps = 3 if thorough else 1
            for _ in range(reps):
                cases.append((e, gen_ops(name, info, e, rng)))
    # histories that switch endianness between operations on the same object (all kinds mixed)
    names = list(types)
    for _ in range(600 if thorough else 120):
        e0 = rng.choice(ENDIANS)
        ops, cur = [], e0
        for _ in range(rng.randrange(3, 9)):
            if rng.random() < 0.3:
                cur = rng.choice(ENDIANS)
                ops.append(("endian", cur))
            else:
                n = rng.choice(names)
                ops.append(rng.choice(gen_ops(n, types[n], cur, rng)))
        cases.append((e0, ops))

    results = [(e0, ops, run_impl(e0, ops, types)) for e0, ops in cases]

    # correspondence
    per = 60
    shards, index = [], []
    for i in range(0, len(results), per):
        items = []
        for (e0, ops, outs) in results[i:i + per]:
            items.append(f"  sops_check {cstr(e0)} {clist((cop(o) for o in ops), 'sop')} {clist((cexpect(o) for o in outs), 'expect')}")
        shards.append("Definition checks : list bool := [\n" + ";\n".join(items) + "\n].")
    res, errs = run_shards("C05", shards, "Model.Prim")
    for e in errs:
        run.violation({"kind": "correspondence", "theorem_or_correspondence": "corr_scalar", "error": e}, tag="corr-shard-error", no_input=True)
    mism = [results[k * per + i] for k, idx in enumerate(res) for i in idx]

    # oracle
    n_ops = 0
    failing_cases = set()
    for ci, (e0, ops, outs) in enumerate(results):
        n_ops += len(ops)
        for sig, desc in oracle(e0, ops, outs, types):
            failing_cases.add(ci)
            run.report(sig, {"ops": [desc], "history": [repr(o) for o in ops][:12], "endian0": e0})
    unexplained = [r for r in mism if results.index(r) not in failing_cases]
    if unexplained:
        e0, ops, outs = min(unexplained, key=lambda r: len(r[1]))
        # narrow down to the first disagreeing operation by re-running prefixes is not needed: report the history
        run.violation({"kind": "correspondence", "theorem_or_correspondence": "corr_scalar (Model.Prim.run_sops vs cstruct scalar types)",
                       "endian0": e0, "ops": [repr(o) for o in ops], "observed": [repr(o) for o in outs], "count": len(unexplained)},
                      tag="corr-" + str(abs(hash(repr(ops))) % 10 ** 8), no_input=True)
    if not ok and not failing_cases and not unexplained:
        pf = run.proof_failure
        run.violation({"kind": "obligation", "theorem_or_correspondence": pf.get("lemma"), **pf}, tag="obligation-" + str(pf.get("lemma")), no_input=True)
    elif not ok:
        run.notes.append(f"proof obligation failed: {run.proof_failure.get('lemma')} ({run.proof_failure.get('file')})")

    # the current endianness also governs scalars read as members of (compiled or interpreted) structures, after a switch on the same object
    from dissect.cstruct import cstruct as _cstruct
    n_struct = 0
    for compiled in (True, False):
        for e1, e2 in (("<", ">"), (">", "<"), ("<", "!")):
            cs = _cstruct(endian=e1)
            cs.load("struct main { uint16 a; uint32 b; int64 c; float f; uint16 d[2]; uint24 t; };", compiled=compiled)
            data = bytes(range(1, 27))
            for step, e in (("first parse", e1), ("after cs.endian = %r" % e2, e2), ("switched back", e1)):
                cs.endian = e
                n_struct += 1
                v = cs.main(data)
                bo = "little" if e == "<" else "big"
                want = (int.from_bytes(data[0:2], bo), int.from_bytes(data[2:6], bo), int.from_bytes(data[6:14], bo, signed=True),
                        [int.from_bytes(data[18:20], bo), int.from_bytes(data[20:22], bo)], int.from_bytes(data[22:25], bo))
                got = (v.a, v.b, v.c, list(v.d), v.t)
                out = v.dumps()
                if got != want or out != data[:25]:
                    failing_cases.add(-1)
                    run.report("C05/struct-member-after-endian-switch", {"ops": [{"op": step, "compiled": compiled, "observed": [repr(got), out.hex()], "expected": [repr(want), data[:25].hex()]}],
                               "definition": "struct main { uint16 a; uint32 b; int64 c; float f; uint16 d[2]; uint24 t; };", "endian0": e1})

    cov = run.coverage
    distinct = {(e0, repr(op)) for e0, ops, _ in results for op in ops if op[0] != "endian"}
    cov["evaluations"] = n_ops
    cov["distinct_nontrivial"] = len(distinct)
    cov["traces_validated_against_impl"] = len(results) - len(mism)
    cov["exhaustive"] = True
    cov["rule"] = ("every name of the live type table (%d names incl. aliases) x endianness {<,>,!}: boundary byte patterns and values "
                   "(0, +-1, +-2^(w-1), 2^w-1, 2^w, out of range), short inputs, float bit patterns incl. subnormal/inf/NaN, lone surrogates, "
                   "non-minimal/truncated LEB128; plus random histories with endianness switches on one cstruct object. "
                   "distinct_nontrivial = distinct (endianness, operation) pairs" % len(types))
    cov["distribution"] = {"histories": len(results), "operations": n_ops, "type_names": len(types),
                           "impl_errors": sum(1 for _, _, outs in results for o in outs if o[0].startswith("err")),
                           "endian_switches": sum(1 for _, ops, _ in results for o in ops if o[0] == "endian"),
                           "correspondence_mismatches": len(mism), "oracle_failing_histories": len(failing_cases), "struct_member_parses_across_endian_switches": n_struct}
    cov["samples"] = [{"endian0": e0, "ops": [repr(o) for o in ops[:4]], "observed": [repr(o)[:80] for o in outs[:4]]}
                      for e0, ops, outs in (results[0], results[len(types)], results[-1])]
    run.assumptions += ["endianness codes <, >, ! only (native @ = are outside the claimed domain)",
                        "NaN payloads are not compared (any NaN = NaN); NaNs are not written",
                        "CPython's struct, int.from_bytes/to_bytes and the utf-16 codecs are modelled by their documented meaning (Model/Codec.v)"]


def replay(rep: dict) -> int:
    print("replay: re-run ./check C05; the replay file records the failing operation:", rep.get("ops"))
    types = live_types()
    bad = 0
    for d in rep.get("ops", []):
        if "type" not in d:
            continue
        e = d["endian"]
        if d["op"] == "read":
            ops = [("read", d["type"], bytes.fromhex(d["input"]))]
        else:
            ops = [("write", d["type"], eval(d["input"]))]  # noqa: S307 - our own repr of a tuple
        outs = run_impl(e, ops, types)
        fails = list(oracle(e, ops, outs, types))
        print(d["type"], d["op"], d["input"], "->", "FAILS" if fails else "holds")
        bad += bool(fails)
    return 1 if bad else 0
