"""C06 — bit-fields partition their storage unit exactly, in endian-defined order.

Proof:          coq/Props/C06.v (read steps = arithmetic spec; partition LE/BE; write inverse)
Correspondence: layout + parse + dump of bit-field structures: ALL width compositions of an 8-bit unit, all
                1..3-field compositions (sampled further) of 16/32/64-bit units x storage types (unsigned, signed,
                char, enum, flag) x {<, >} x neighbours x {packed, aligned} x {compiled, interpreted}
Oracle:         an independent bit-slicing reference written here (unit rule + LSB-first / MSB-first slicing)
"""
from __future__ import annotations

import itertools
import random

from .. import structs
from ..common import Run
from ..structcorr import Case, build_items, report_unexplained, run_items

STORAGE = {"uint8": (8, False), "int8": (8, True), "char": (8, False), "uint16": (16, False), "int16": (16, True),
           "uint32": (32, False), "int32": (32, True), "uint64": (64, False), "int64": (64, True)}
ENUMS = {"E8": ("uint8", "enum"), "F16": ("uint16", "flag"), "E32s": ("int32", "enum")}
PRELUDE = "enum E8 : uint8 { E8_A = 1, E8_B = 2, E8_C = 7 }; flag F16 : uint16 { F16_A = 1, F16_B = 2, F16_C = 4 }; enum E32s : int32 { E32s_A, E32s_B = 100 };\n"


def compositions(n: int):
    """All ordered compositions of n into positive parts."""
    for k in range(n):
        for cuts in itertools.combinations(range(1, n), k):
            pts = [0, *cuts, n]
            yield [b - a for a, b in zip(pts, pts[1:])]


def storage_bits(st: str) -> int:
    return STORAGE[ENUMS[st][0]][0] if st in ENUMS else STORAGE[st][0]


def reference_units(fields):
    """Independent unit rule. fields: list of (storage, bits) for bit fields or ("#", nbytes) for a plain field of n bytes.
    Returns list of ('unit', storage, [(index, bits, bit_offset_from_first)]) / ('plain', nbytes, index), or None if a field straddles."""
    out = []
    cur = None
    for i, (st, b) in enumerate(fields):
        if st == "#":
            cur = None
            out.append(("plain", b, i))
            continue
        key = ENUMS[st][0] if st in ENUMS else st          # an enum shares units with its underlying type
        width = storage_bits(st)
        if cur is None or cur["key"] != key or cur["used"] == width:
            cur = {"key": key, "used": 0, "fields": [], "width": width}
            out.append(("unit", cur))
        if cur["used"] + b > width:
            return None
        cur["fields"].append((i, b, cur["used"]))
        cur["used"] += b
    return out


def reference_parse(fields, data: bytes, endian: str):
    """Values of all bit fields by plain slicing (packed layout, no alignment)."""
    units = reference_units(fields)
    if units is None:
        return None
    pos, vals = 0, {}
    for u in units:
        if u[0] == "plain":
            pos += u[1]
            continue
        cur = u[1]
        nbytes = cur["width"] // 8
        raw = data[pos:pos + nbytes]
        if len(raw) < nbytes:
            return "eof"
        unit = int.from_bytes(raw, "little" if endian == "<" else "big")   # "!" is network order = big
        pos += nbytes
        for (i, b, off) in cur["fields"]:
            shift = off if endian == "<" else cur["width"] - off - b
            vals[i] = (unit >> shift) & ((1 << b) - 1)
    return vals, pos


def reference_dump_mask(fields, endian: str):
    """Bit mask (as bytes) of the bits that belong to some bit field, for the fidelity clause."""
    units = reference_units(fields)
    out = bytearray()
    for u in units:
        if u[0] == "plain":
            out += b"\xff" * u[1]
            continue
        cur = u[1]
        m = 0
        for (_, b, off) in cur["fields"]:
            shift = off if endian == "<" else cur["width"] - off - b
            m |= ((1 << b) - 1) << shift
        out += m.to_bytes(cur["width"] // 8, "little" if endian == "<" else "big")
    return bytes(out)


def make_text(fields) -> str:
    lines = []
    for i, (st, b) in enumerate(fields):
        if st == "#":
            # 0: a member that occupies no bytes (it still ends the current storage unit)
            lines.append({0: [f"uint32 p{i}[0];", f"struct {{ }} p{i};", f"void p{i};"][i % 3], 1: f"uint8 p{i};", 2: f"uint16 p{i};", 3: f"uint24 p{i};", 4: f"uint32 p{i};"}[b])
        else:
            lines.append(f"{st} f{i} : {b};")
    return PRELUDE + "struct main { " + " ".join(lines) + " };"


def check(run: Run) -> None:
    rng = random.Random(f"C06-{run.seed}")
    thorough = run.tier == "thorough"
    ok = run.prove("Props/C06.v")

    shapes: list[list] = []
    # exhaustive: every composition of an 8-bit unit, for unsigned / signed / char / enum storage
    for comp in compositions(8):
        for st in ("uint8", "int8", "char", "E8") if (thorough or len(comp) <= 8) else ("uint8",):
            shapes.append([(st, w) for w in comp])
    n_exh = len(shapes)
    # all compositions into <= 3 parts of 16/32/64 that fill the unit, sampled; plus partial units
    for st, (w, _) in STORAGE.items():
        if w == 8:
            continue
        comps = [c for c in ([[w]] + [[a, w - a] for a in range(1, w)] +
                             [[a, b, w - a - b] for a in range(1, w - 1) for b in range(1, w - a)])]
        for comp in rng.sample(comps, min(len(comps), 60 if thorough else 10)):
            shapes.append([(st, x) for x in comp])
        for _ in range(20 if thorough else 4):
            k = rng.randrange(1, 4)
            comp = [rng.randrange(1, max(2, w // k)) for _ in range(k)]
            shapes.append([(st, x) for x in comp])                      # leaves unassigned bits
    # unit switches: different storage types, exhausted units, plain fields in between, enum/flag storage, straddles
    pool = list(STORAGE) + list(ENUMS)
    for _ in range(400 if thorough else 90):
        fs = []
        for _ in range(rng.randrange(2, 7)):
            if rng.random() < 0.2:
                fs.append(("#", rng.choice([1, 2, 3, 4])))
            else:
                st = rng.choice(pool)
                fs.append((st, rng.randrange(1, storage_bits(st) + 1)))
        shapes.append(fs)

    # a zero-size member between two bit fields of one storage type ends the unit although the offset does not move
    for st in ("uint8", "uint16", "int32", "uint64", "E8"):
        w = storage_bits(st)
        for a, b in ((1, 1), (3, 2), (w // 2, w // 2), (w - 1, 1), (w // 2 + 1, w // 2 + 1)):
            for lead in ([], [("#", 1)], [("#", 0)]):
                shapes.append(lead + [(st, a), ("#", 0), (st, b)])
                shapes.append(lead + [(st, a), ("#", 0), ("#", 0), (st, b), ("#", 2)])

    cases, items = [], []
    explained: set = set()
    n_straddle = n_ok = failures = 0
    for si, fs in enumerate(shapes):
        text = make_text(fs)
        units = reference_units(fs)
        total = 0 if units is None else sum((u[1] if u[0] == "plain" else u[1]["width"] // 8) for u in units)
        for endian in ("<", ">", "!") if si % 4 == 0 else ("<", ">"):
            combos = [(False, False), (True, False)] if si < n_exh and not thorough else [(False, False), (True, False), (False, True), (True, True)]
            for compiled, align in combos:
                c = Case(text, endian=endian, compiled=compiled, align=align, tag=f"shape{si}")
                try:
                    cs = c.load()
                except ValueError as e:
                    if units is None and "traddl" in str(e):
                        n_straddle += 1
                        continue
                    failures += 1
                    run.report("C06/rejected-definition", {**c.describe(), "ops": [{"op": "load", "observed": f"{type(e).__name__}: {e}",
                               "expected": "accepted: no field straddles its unit" if units is not None else "straddle error"}]})
                    continue
                except Exception as e:  # noqa: BLE001
                    failures += 1
                    run.report("C06/definition-error", {**c.describe(), "ops": [{"op": "load", "observed": f"{type(e).__name__}: {e}", "expected": "a type"}]})
                    continue
                if units is None:
                    failures += 1
                    run.report("C06/straddle-accepted", {**c.describe(), "ops": [{"op": "load", "observed": "definition accepted",
                               "expected": "ValueError: a field straddles its storage unit"}]})
                    continue
                n_ok += 1
                datas = [b"\xff" * (total + 8), bytes(rng.randrange(256) for _ in range(total + 8)), bytes([0x80] * (total + 8)), rng.randbytes(max(0, total - 1))]
                c.ops = [("layout",)] + [op for d in datas for op in (("parse", d, 0), ("dump", d, 0))]
                its = build_items(c)
                items += its
                cases.append(c)
                if align:
                    continue   # the slicing reference assumes the packed layout; aligned mode is covered by the model comparison
                T = cs.resolve("main")
                for d in datas:
                    ref = "eof" if len(d) < total else reference_parse(fs, d, endian)
                    r = structs.parse(cs, "main", d, 0)
                    prob = None
                    if ref == "eof":
                        if r[0] != "err" or not isinstance(r[1], EOFError):
                            prob = {"observed": structs.py_value(r[1], T) if r[0] == "ok" else repr(r[1]), "expected": "EOFError"}
                    elif r[0] != "ok":
                        prob = {"observed": repr(r[1]), "expected": "values " + str(ref[0])}
                    else:
                        got = {i: structs.py_field(getattr(r[1], f"f{i}"), T.__fields__[i]) for i in ref[0]}
                        if got != ref[0] or r[2] != ref[1]:
                            prob = {"observed": [got, r[2]], "expected": [ref[0], ref[1]]}
                        else:
                            try:
                                out = r[1].dumps()
                                mask = reference_dump_mask(fs, endian)
                                want = bytes(a & m for a, m in zip(d[:total], mask))
                                if out != want:
                                    prob = {"observed": "dumps " + out.hex(), "expected": "field bits of the input, unassigned bits zero: " + want.hex()}
                            except Exception as e:  # noqa: BLE001
                                prob = {"observed": f"dumps raises {type(e).__name__}: {e}", "expected": "the inverse of parsing"}
                    if prob:
                        failures += 1
                        for it in its:
                            explained.add(id(it))
                        signed = any(st in ("int8", "int16", "int32", "int64", "E32s") for st, _ in fs if st != "#")
                        run.report("C06/" + ("signed-storage" if signed and "dumps" in str(prob["observed"]) else "slicing"),
                                   {**c.describe(), "ops": [{"op": "parse+dump", "data": d.hex(), **prob}]})

    # ---- fixed scenarios outside the slicing reference's reach ----
    import sys as _sys
    for compiled in (False, True):
        # (a) native byte order: '@' and '=' are the machine's order, for the bit order inside a unit as for the bytes
        for e in ("@", "="):
            same = "<" if _sys.byteorder == "little" else ">"
            ca, cb = structs.load("struct main { uint16 a : 4; uint16 b : 12; uint8 c : 3; uint8 d : 5; };", endian=e, compiled=compiled), \
                structs.load("struct main { uint16 a : 4; uint16 b : 12; uint8 c : 3; uint8 d : 5; };", endian=same, compiled=compiled)
            d = bytes([0x21, 0x43, 0xA5])
            va, vb = ca.main(d), cb.main(d)
            got, want = (va.a, va.b, va.c, va.d, va.dumps().hex()), (vb.a, vb.b, vb.c, vb.d, vb.dumps().hex())
            if got != want:
                failures += 1
                run.report("C06/native-bit-order", {"definition": "struct main { uint16 a : 4; uint16 b : 12; uint8 c : 3; uint8 d : 5; };", "cstruct_kwargs": {"endian": e, "pointer": None},
                           "load_kwargs": {"compiled": compiled, "align": False}, "ops": [{"op": "parse+dump", "data": d.hex(), "observed": repr(got), "expected": repr(want) + f" (what endian={same!r} gives on this machine)"}]})
        # (b) aligned mode with a storage type whose alignment differs from its size (int24 / int48): the fields of one unit share it (recorded finding)
        for text, data, want_vals, want_len in [("struct main { uint24 a : 4; uint24 b : 4; };", bytes.fromhex("21a1a2b1"), (1, 2), 4),
                                                ("struct main { uint8 f0; uint48 f1 : 41; uint48 f2 : 7; uint16 f3; };", bytes(range(1, 25)), None, None)]:
            cs_b = structs.load(text, compiled=compiled, align=True)
            T = cs_b.main
            try:
                v = T(data)
                out = v.dumps()
                v2 = T(out + bytes(8))
                names = [f._name for f in T.__fields__]
                probs = []
                if [getattr(v, n) for n in names] != [getattr(v2, n) for n in names]:
                    probs.append(f"parse(dumps(v)) differs from v: {[int(getattr(v2, n)) for n in names]} vs {[int(getattr(v, n)) for n in names]}")
                if len(out) != len(T):
                    probs.append(f"dumps gives {len(out)} bytes, len(T) is {len(T)}")
                if want_vals is not None and (tuple(int(getattr(v, n)) for n in names) != want_vals or len(T) != want_len):
                    probs.append(f"values {[int(getattr(v, n)) for n in names]}, size {len(T)}; expected {want_vals}, {want_len}")
            except Exception as e:  # noqa: BLE001
                probs = [f"{type(e).__name__}: {e}"]
            if probs:
                failures += 1
                run.report("C06/aligned-odd-size-unit", {"definition": text, "load_kwargs": {"compiled": compiled, "align": True}, "ops": [{"op": "parse, dump, parse", "data": data.hex(), "observed": probs,
                           "expected": "the fields of one storage unit share it in layout, reader and writer"}]})
        # (c) bit-field members of a union keep their width (recorded finding)
        cs_c = structs.load("union main { uint8 a : 4; uint8 b : 2; uint16 c; };", compiled=compiled)
        v = cs_c.main(b"\xff\xff")
        if (int(v.a), int(v.b)) != (15, 3):
            failures += 1
            run.report("C06/union-bit-field-width", {"definition": "union main { uint8 a : 4; uint8 b : 2; uint16 c; };", "load_kwargs": {"compiled": compiled, "align": False},
                       "ops": [{"op": "parse", "data": "ffff", "observed": f"a={int(v.a)} b={int(v.b)}", "expected": "a=15 b=3: each value in [0, 2^bits)"}]})

    mism = run_items(run, items)
    report_unexplained(run, mism, explained, "corr_bits (Model.Reader/Writer/Layout vs bit-field structures)")
    if not ok and not failures and not mism:
        pf = run.proof_failure
        run.violation({"kind": "obligation", "theorem_or_correspondence": pf.get("lemma"), **pf}, tag="obligation-" + str(pf.get("lemma")), no_input=True)

    live = [it for it in items if it.expr]
    cov = run.coverage
    cov["evaluations"] = len(live)
    cov["distinct_nontrivial"] = len({(it.case.text, it.case.endian, it.case.align, it.case.compiled) for it in live})
    cov["traces_validated_against_impl"] = len(live) - len(mism)
    cov["exhaustive"] = True
    cov["rule"] = ("exhaustive: all 128 compositions of an 8-bit unit x {uint8,int8,char,enum} ; sampled: 1..3-part compositions of 16/32/64-bit units "
                   "(full and partial) for every signed/unsigned storage type; random sequences mixing storage types, enum/flag storage, plain fields and "
                   "straddling fields; each x {<,>} x {compiled, interpreted} x {packed, aligned}; inputs: all-ones, 0x80.., random, truncated. "
                   "distinct_nontrivial = distinct (definition, endianness, mode)")
    cov["distribution"] = {"shapes": len(shapes), "exhaustive_8bit_shapes": n_exh, "definitions_loaded": n_ok, "straddles_rejected": n_straddle,
                           "oracle_failures": failures, "correspondence_mismatches": len(mism)}
    cov["samples"] = [{"definition": c.text[len(PRELUDE):], "endian": c.endian, "compiled": c.compiled, "align": c.align} for c in cases[:2] + cases[-2:]]
    run.assumptions += ["values wider than their field are outside the statement ('every value that fits')",
                        "endianness codes < and > (! behaves as >)"]


def replay(rep: dict) -> int:
    c = Case(rep["definition"], align=rep["load_kwargs"]["align"], compiled=rep["load_kwargs"]["compiled"], endian=rep["cstruct_kwargs"]["endian"])
    op = rep["ops"][0]
    try:
        cs = c.load()
    except Exception as e:  # noqa: BLE001
        print("load:", type(e).__name__, e)
        return 1 if op["op"] == "load" and "accepted" in str(op.get("expected")) else 0
    if op["op"] == "load":
        print("definition accepted")
        return 1 if "traddle" in str(op.get("expected")) else 0
    d = bytes.fromhex(op["data"])
    r = structs.parse(cs, "main", d, 0)
    print("parse:", r[0], r[1] if r[0] == "err" else structs.py_value(r[1], cs.resolve("main")))
    try:
        if r[0] == "ok":
            print("dumps:", r[1].dumps().hex())
    except Exception as e:  # noqa: BLE001
        print("dumps raises", type(e).__name__, e)
        return 1
    return 0
