"""C07 — array length semantics: fixed, expression, null-terminated and to-end-of-stream.

Proof:          coq/Props/C07.v (bulk fast paths = sequential element reads; count semantics of the model reader)
Correspondence: template structures (element kind x length form) and random definitions, both reader modes:
                parse / dump / dump-with-changed-count vs Model.Reader / Model.Writer
Oracle:         an independent reference array reader/writer over the templates (element decoders from C05's references)
"""
from __future__ import annotations

import random

from .. import structs
from ..common import Run
from ..structcorr import Case, build_items, report_unexplained, run_items
from . import _family as F
from .C05 import ref_int_decode, ref_int_encode, ref_leb_decode, ref_ileb, ref_uleb

PRELUDE = ("enum E8 : uint8 { E8_Z = 0, E8_A = 1, E8_B = 5 }; enum E24 : uint24 { E24_A = 1, E24_B = 70000 }; flag F16 : uint16 { F16_A = 1, F16_B = 4 };\n"
           "struct P { uint8 x; uint16 y; };\n")
# kind -> (declaration type, fixed element size or None)
KINDS = {"uint8": 1, "int16": 2, "uint32": 4, "int64": 8, "int24": 3, "uint48": 6, "char": 1, "wchar": 2, "E8": 1, "E24": 3, "F16": 2,
         "uleb128": None, "ileb128": None, "P": 3, "float": 4}
SIGNED = {"int16", "int64", "int24", "ileb128"}


class Eof(Exception):
    pass


def ref_elem(kind: str, data: bytes, pos: int, e: str):
    """One element by the reference rules: (python value, new position)."""
    if kind in ("uleb128", "ileb128"):
        r = ref_leb_decode(data[pos:], kind == "ileb128")
        if r is None:
            raise Eof
        return r[0], pos + r[1]
    n = KINDS[kind]
    raw = data[pos:pos + n]
    if len(raw) < n:
        raise Eof
    if kind == "char":
        return raw, pos + 1
    if kind == "wchar":
        u = ref_int_decode(raw, e, False)
        return u, pos + 2             # a UTF-16 code unit; strings are compared unit-wise
    if kind == "P":
        return ("struct", [("x", raw[0]), ("y", ref_int_decode(raw[1:3], e, False))]), pos + 3
    if kind == "float":
        bits = ref_int_decode(raw, e, False)
        return (("nan",) if (bits >> 23) & 0xFF == 0xFF and bits & 0x7FFFFF else ("f", bits)), pos + 4
    return ref_int_decode(raw, e, kind in SIGNED), pos + n


def is_zero(kind: str, v) -> bool:
    if kind == "char":
        return v == b"\x00"
    if kind == "P":
        return all(x == 0 for _, x in v[1])
    if kind == "float":
        return v[0] == "f" and v[1] & 0x7FFFFFFF == 0
    return v == 0


def enc_elem(kind: str, v, e: str) -> bytes:
    if kind == "uleb128":
        return ref_uleb(v)
    if kind == "ileb128":
        return ref_ileb(v)
    if kind == "char":
        return v
    if kind == "P":
        return bytes([v[1][0][1]]) + ref_int_encode(v[1][1][1], 2, e, False)
    if kind == "float":
        return b"\x00" * 4 if v == ("nan",) else ref_int_encode(v[1], 4, e, False)
    return ref_int_encode(v, KINDS[kind], e, kind in SIGNED)


def ref_array(kind, form, ctx, data, pos, e):
    """Reference semantics of the four length forms. Returns (list of element values, new pos, bytes a dump must produce)."""
    vals = []
    if form[0] in ("fixed", "expr"):
        n = form[1] if form[0] == "fixed" else max(0, form[2](ctx))
        for _ in range(n):
            v, pos = ref_elem(kind, data, pos, e)
            vals.append(v)
        return vals, pos, b"".join(enc_elem(kind, v, e) for v in vals)
    if form[0] == "null":
        while True:
            v, pos = ref_elem(kind, data, pos, e)
            if is_zero(kind, v):
                return vals, pos, b"".join(enc_elem(kind, x, e) for x in vals) + enc_elem(kind, v if kind != "float" else ("f", 0), e)
            vals.append(v)
    # eof
    while pos < len(data):
        v, pos = ref_elem(kind, data, pos, e)
        vals.append(v)
    return vals, pos, b"".join(enc_elem(kind, v, e) for v in vals)


FORMS = [("fixed", 0), ("fixed", 1), ("fixed", 3), ("expr", "n", lambda c: c["n"]), ("expr", "n * 2 + m", lambda c: c["n"] * 2 + c["m"]),
         ("expr", "n - 3", lambda c: c["n"] - 3), ("expr", "(m & 3) + K", lambda c: (c["m"] & 3) + 2), ("null",), ("eof",)]


def form_text(form) -> str:
    return {"fixed": lambda: str(form[1]), "expr": lambda: form[1], "null": lambda: "", "eof": lambda: "EOF"}[form[0]]()


def py_to_ref(kind, v):
    """Implementation value (already py_value'd) in the reference's representation."""
    if kind == "wchar":
        return v
    return v


def check(run: Run) -> None:
    rng = random.Random(f"C07-{run.seed}")
    thorough = run.tier == "thorough"
    ok = run.prove("Props/C07.v")
    items, explained, failures, n_oracle = [], set(), 0, 0

    # ---- templates: struct main { uint8 n; uint8 m; T a[form]; uint8 tail; } (tail omitted for eof) ----
    for kind in KINDS:
        for form in FORMS:
            for dims2 in (False, True) if (form[0] in ("fixed", "expr") and kind not in ("char", "wchar")) else (False,):
                inner = "[2]" if dims2 else ""
                tail = "" if form[0] == "eof" else " uint8 tail;"
                text = f"#define K 2\n{PRELUDE}struct main {{ uint8 n; uint8 m; {kind} a[{form_text(form)}]{inner};{tail} }};"
                for compiled in (False, True):
                    for endian in ("<", ">"):
                        if not thorough and endian == ">" and compiled and KINDS[kind] == 1:
                            continue
                        c = Case(text, endian=endian, compiled=compiled)
                        datas = []
                        for _ in range(4 if thorough else 2):
                            n, m = rng.choice([0, 1, 2, 3, 5]), rng.choice([0, 1, 2, 7])
                            body = F.random_data(rng, rng.choice([0, 2, 6, 12, 24, 40]))
                            if form[0] == "null" and rng.random() < 0.7:
                                body = bytes(b or 1 for b in body[:rng.randrange(0, 12)]) + bytes(8) + body
                            datas.append(bytes([n, m]) + body)
                        c.ops = [op for d in datas for op in (("parse", d, 0), ("dump", d, 0))]
                        if form[0] == "fixed" and form[1] > 0:
                            c.ops += [("mutdump", datas[0] + bytes(64), 0, "a", "drop"), ("mutdump", datas[0] + bytes(64), 0, "a", "dup")]
                        try:
                            its = build_items(c)
                        except RuntimeError as e:       # unclassified exception from the implementation
                            failures += 1
                            run.report("C07/unexpected-exception", {**c.describe(), "ops": [{"op": "parse", "observed": str(e.__cause__ or e)[:300], "expected": "a value or EOFError"}]})
                            continue
                        items += its
                        if dims2:
                            continue                      # the reference below covers one dimension; two dimensions go through the model
                        # ---- oracle ----
                        try:
                            cs = c.load()
                        except Exception:  # noqa: BLE001
                            continue
                        T = cs.resolve("main")
                        e = "<" if endian == "<" else ">"
                        for d in datas:
                            n_oracle += 1
                            r = structs.parse(cs, "main", d, 0)
                            try:
                                vals, pos, enc = ref_array(kind, form, {"n": d[0], "m": d[1]}, d, 2, e)
                                if form[0] != "eof":
                                    if pos >= len(d):
                                        raise Eof
                                    pos += 1
                                want = ("ok", vals, pos)
                            except Eof:
                                want = ("eof",)
                            prob = None
                            if want[0] == "eof":
                                if r[0] == "ok":
                                    prob = {"observed": "a value", "expected": "an error: the input ends inside the array"}
                            elif r[0] != "ok":
                                if not (kind == "wchar" and isinstance(r[1], UnicodeDecodeError)):
                                    prob = {"observed": repr(r[1])[:200], "expected": f"{len(want[1])} elements, consumed {want[2]}"}
                            else:
                                got = structs.py_value(r[1].a, T.__fields__[2].type)
                                if kind == "wchar":
                                    try:
                                        ref_s = b"".join(ref_int_encode(u, 2, "<", False) for u in want[1]).decode("utf-16-le")
                                    except UnicodeDecodeError:
                                        ref_s = None
                                    okv = ref_s is not None and got == ref_s
                                elif kind == "char":
                                    okv = got == b"".join(want[1])
                                else:
                                    okv = got == want[1]
                                if not okv or r[2] != want[2]:
                                    prob = {"observed": [repr(got)[:200], r[2]], "expected": [repr(want[1])[:200], want[2]]}
                                else:
                                    try:
                                        if any(v == ("nan",) for v in want[1]):
                                            continue          # NaN payloads are outside the statement
                                        out = r[1].dumps()
                                        exp = d[:2] + enc + (bytes([d[want[2] - 1]]) if form[0] != "eof" else b"")
                                        if out != exp:
                                            prob = {"observed": "dumps " + out.hex(), "expected": exp.hex()}
                                    except Exception as ex:  # noqa: BLE001
                                        prob = {"observed": f"dumps raises {type(ex).__name__}: {ex}", "expected": "the encoded elements"}
                            if prob:
                                failures += 1
                                for it in its:
                                    explained.add(id(it))
                                run.report(f"C07/{kind}/{form[0]}" + ("/compiled" if compiled else ""),
                                           {**c.describe(), "ops": [{"op": "parse+dump", "data": d.hex(), **prob}]})
                        # wrong element count must be refused for non-character fixed arrays
                        if form[0] == "fixed" and form[1] > 0 and kind not in ("char", "wchar") and KINDS[kind] is not None:
                            for it in its:
                                if it.op[0] == "mutdump" and it.impl and it.impl[0] == "mutdump" and not isinstance(it.impl[1], Exception):
                                    failures += 1
                                    explained.add(id(it))
                                    run.report(f"C07/{kind}/size-not-refused", {**c.describe(), "ops": [{"op": "dump with changed element count", "how": it.op[4],
                                               "observed": "dumps " + it.impl[1].hex(), "expected": "ArraySizeError"}]})
    # nested dimensions whose INNER length is an expression over earlier fields (context must reach the elements)
    for kind in ("uint8", "int16", "uint32", "E8", "P", "char", "int24"):
        for dims in ("[EOF][n]", "[3][n]", "[n][m]", "[m][n + 1]", "[2][n][2]", "[EOF][(n & 1) + 1]"):
            for compiled in (False, True):
                tail = "" if "EOF" in dims else " uint8 tail;"
                c = Case(f"{PRELUDE}struct main {{ uint8 n; uint8 m; {kind} a{dims};{tail} }};", compiled=compiled, endian=rng.choice("<>"))
                # n = 0 under [EOF][n] makes zero-size elements: a recorded non-termination finding, replayed once below
                ds = [bytes([rng.choice([1, 2, 3] if dims == "[EOF][n]" else [0, 1, 2, 3]), rng.choice([0, 1, 2])])
                      + F.random_data(rng, rng.choice([4, 12, 30, 60])) for _ in range(3)]
                c.ops = [op for d in ds for op in (("parse", d, 0), ("dump", d, 0))]
                its = build_items(c)
                items += its
                # oracle: both readers must agree with each other, and n == 0 must give empty inner arrays
                try:
                    cs = c.load()
                    cs2 = Case(c.text, compiled=not compiled, endian=c.endian).load()
                except Exception:  # noqa: BLE001
                    continue
                for d in ds:
                    n_oracle += 1
                    a, b = structs.parse(cs, "main", d, 0), structs.parse(cs2, "main", d, 0)
                    ka = (a[0], structs.py_value(a[1], cs.resolve("main")), a[2]) if a[0] == "ok" else ("err", type(a[1]).__name__)
                    kb = (b[0], structs.py_value(b[1], cs2.resolve("main")), b[2]) if b[0] == "ok" else ("err", type(b[1]).__name__)
                    inner_expected = None
                    if a[0] == "ok" and dims in ("[EOF][n]", "[3][n]"):
                        rows = structs.py_value(a[1].a, cs.resolve("main").__fields__[2].type)
                        if any(len(row) != d[0] for row in rows):
                            inner_expected = f"every row has n = {d[0]} elements"
                    if a[0] == "err" and not isinstance(a[1], (EOFError, UnicodeDecodeError)):
                        inner_expected = "a value or EOFError (the expression only uses earlier fields)"
                    if ka != kb or inner_expected:
                        failures += 1
                        for it in its:
                            explained.add(id(it))
                        run.report(f"C07/nested-dims/{dims}", {**c.describe(), "ops": [{"op": "parse", "data": d.hex(), "observed": repr(ka)[:300],
                                   "expected": inner_expected or ("the other reader gives " + repr(kb)[:300])}]})
    # null-terminated arrays of structures: the terminator is an element whose FIELDS are all zero - padding and unassigned bits do not count
    for text, al, el, term, elen in (
            ("struct A { uint8 x; uint32 y; }; struct main { A a[]; uint8 tail; };", True, bytes([1, 0xAA, 0xBB, 0xCC, 2, 0, 0, 0]), bytes([0, 0xAA, 0xBB, 0xCC, 0, 0, 0, 0]), 8),
            ("struct A { uint8 f : 3; uint8 g : 2; }; struct main { A a[]; uint8 tail; };", False, bytes([0x05]), bytes([0xE0]), 1),
            ("struct A { uint16 x; uint64 y; }; struct main { A a[]; uint8 tail; };", True, bytes([1, 0] + [0x11] * 6 + [0] * 8), bytes([0, 0] + [0x77] * 6 + [0] * 8), 16)):
        for compiled in (False, True):
            for endian in ("<", ">"):
                el_, term_ = (bytes([0xA0]), bytes([0x07])) if ("f : 3" in text and endian == ">") else (el, term)   # MSB-first: f, g are the top five bits
                d = el_ + el_ + term_ + bytes([0x5A, 9, 9])
                c = Case(text, endian=endian, compiled=compiled, align=al)
                c.ops = [("parse", d, 0)]
                try:
                    its = build_items(c)
                except RuntimeError:
                    continue
                items += its
                n_oracle += 1
                r = structs.parse(c._cs, "main", d, 0) if getattr(c, "_cs", None) is not None else ("skip",)
                if r[0] == "err" or (r[0] == "ok" and (len(r[1].a) != 2 or r[1].tail != 0x5A)):
                    failures += 1
                    for it in its:
                        explained.add(id(it))
                    run.report("C07/struct-terminator", {**c.describe(), "ops": [{"op": "parse", "data": d.hex(), "observed": [len(r[1].a), r[1].tail] if r[0] == "ok" else repr(r[1])[:200],
                               "expected": [2, 0x5A], "what": "the third element has all fields zero (only padding / unassigned bits set): it terminates the array"}]})

    # null-terminated LEB128 arrays: the terminator is an element whose VALUE is zero, however it is encoded (80 00, 80 80 00 are zero too)
    for kind in ("uleb128", "ileb128"):
        text = f"struct main {{ {kind} a[]; uint8 tail; }};"
        for zero in (b"\x00", b"\x80\x00", b"\x80\x80\x00"):
            for compiled in (False, True):
                d = b"\x05\x81\x01" + zero + bytes([0x5A, 7, 0, 9])
                c = Case(text, endian="<", compiled=compiled)
                c.ops = [("parse", d, 0)]
                try:
                    its = build_items(c)
                except RuntimeError:
                    continue
                items += its
                n_oracle += 1
                r = structs.parse(c._cs, "main", d, 0) if getattr(c, "_cs", None) is not None else ("skip",)
                if r[0] == "err" or (r[0] == "ok" and (list(r[1].a) != [5, 129] or r[1].tail != 0x5A)):
                    failures += 1
                    for it in its:
                        explained.add(id(it))
                    run.report("C07/leb128-terminator", {**c.describe(), "ops": [{"op": "parse", "data": d.hex(), "observed": [list(r[1].a), r[1].tail] if r[0] == "ok" else repr(r[1])[:200],
                               "expected": [[5, 129], 0x5A], "what": "the third element decodes to zero: it terminates the array and is consumed"}]})

    # a fixed-size multi-dimensional array is refused when a ROW has the wrong number of elements, even if the total matches
    for kind in ("uint16", "E8", "P"):
        text = f"{PRELUDE}struct main {{ {kind} m[2][3]; uint8 tail; }};"
        for compiled in (False, True):
            cs2 = structs.load(text, compiled=compiled)
            v = cs2.main(bytes(range(1, 40)))
            rows = [list(r_) for r_ in v.m]
            n_oracle += 1
            v.m = [rows[0][:2], rows[1] + rows[0][2:]]        # 2 + 4 elements
            try:
                out = v.dumps()
                failures += 1
                run.report("C07/row-length-not-refused", {"definition": text, "cstruct_kwargs": {"endian": "<", "pointer": None}, "load_kwargs": {"compiled": compiled, "align": False},
                           "ops": [{"op": "dump m[2][3] holding rows of 2 and 4 elements", "observed": "dumps " + out.hex(), "expected": "ArraySizeError"}]})
            except Exception as e:  # noqa: BLE001
                if type(e).__name__ != "ArraySizeError":
                    failures += 1
                    run.report("C07/row-length-not-refused", {"definition": text, "cstruct_kwargs": {"endian": "<", "pointer": None}, "load_kwargs": {"compiled": compiled, "align": False},
                               "ops": [{"op": "dump m[2][3] holding rows of 2 and 4 elements", "observed": type(e).__name__, "expected": "ArraySizeError"}]})

    # negative counts, including the value the library uses internally as its EOF sentinel (-0xE0F): max(0, expr) = 0 elements
    for kind in ("uint8", "uint16", "char", "P"):
        text = f"{PRELUDE}struct main {{ uint16 n; uint16 m; {kind} a[m - n]; uint8 tail; }};"
        for delta in (-3599, -3598, -3600, -1, -0xE0F * 2, -65535):
            for compiled in (False, True):
                n_ = rng.randrange(-delta, 65536) if -delta < 65536 else 65535
                m_ = n_ + delta
                d = n_.to_bytes(2, "little") + m_.to_bytes(2, "little") + bytes([0x5A, 1, 2, 3, 4, 5, 6, 7])
                c = Case(text, endian="<", compiled=compiled)
                c.ops = [("parse", d, 0)]
                try:
                    its = build_items(c)
                except RuntimeError:
                    continue
                items += its
                n_oracle += 1
                r = structs.parse(c._cs, "main", d, 0) if getattr(c, "_cs", None) is not None else ("skip",)
                if r[0] == "err" or (r[0] == "ok" and (len(r[1].a) != 0 or r[1].tail != 0x5A or r[2] != 5)):
                    failures += 1
                    for it in its:
                        explained.add(id(it))
                    run.report("C07/negative-count", {**c.describe(), "ops": [{"op": "parse", "data": d.hex(), "observed": [len(r[1].a), r[1].tail, r[2]] if r[0] == "ok" else repr(r[1])[:200],
                               "expected": [0, 0x5A, 5], "what": f"a[m - n] with m - n = {delta} must hold max(0, expr) = 0 elements"}]})

    # the recorded finding: a zero-size element type under [EOF] never terminates on non-empty input
    for text in ("struct main { uint8 n; uint8 a[EOF][n]; };", "struct main { uint8 n; void a[EOF]; };"):
        c = Case(text, compiled=False)
        cs = c.load()
        n_oracle += 1
        r = structs.parse(cs, "main", b"\x00\x01\x02", 0)
        if r[0] == "err" and isinstance(r[1], structs.Hang):
            failures += 1
            run.report("C07/zero-size-element-under-EOF", {**c.describe(), "ops": [{"op": "parse", "data": "000102", "observed": "does not terminate (watchdog)",
                       "expected": "a value or an error"}]})
    n_templates = len(items)

    # ---- a count that names an earlier FIELD is evaluated over the fields, also when a constant of that name exists (constants are the fall back) ----
    SHADOW = [("#define n 4\nstruct main { uint8 n; uint8 a[n]; uint8 tail; };", lambda d: d[0]),
              ("#define n 4\n#define K 2\nstruct main { uint8 n; uint8 a[n + K]; uint8 tail; };", lambda d: d[0] + 2),
              ("#define n 4\nstruct main { uint8 m; uint8 a[n]; uint8 tail; };", lambda d: 4),                    # no field n before the array: the constant
              ("#define n 4\nstruct main { uint8 m; uint8 a[n]; uint8 n; };", lambda d: 4),                       # the field n comes later
              ("#define len 3\nstruct main { uint8 len; char a[len]; uint8 tail; };", lambda d: d[0]),
              ("#define n 4\nstruct main { uint8 n; uint16 a[n][2]; uint8 tail; };", lambda d: d[0])]
    for text, want_len in SHADOW:
        for compiled in (False, True):
            cs = structs.load(text, compiled=compiled)
            for first in (0, 1, 2, 5):
                n_oracle += 1
                d = bytes([first]) + bytes(range(1, 40))
                r = structs.parse(cs, "main", d, 0)
                got = len(r[1].a) if r[0] == "ok" else repr(r[1])
                if got != want_len(d):
                    failures += 1
                    run.report("C07/count-over-fields", {"definition": text, "cstruct_kwargs": {"endian": "<", "pointer": None}, "load_kwargs": {"compiled": compiled, "align": False},
                               "ops": [{"op": "parse", "data": d.hex(), "observed": f"{got} elements", "expected": f"{want_len(d)} elements: the count is evaluated over the fields parsed before the array, constants are the fall back"}]})
                    break

    # ---- random definitions rich in arrays ----
    for _ in range(900 if thorough else 150):
        c = F.gen_case(rng, depth=2, bits=False, unions=False, max_fields=6)
        ds = [F.random_data(rng) for _ in range(2)]
        c.ops = [op for d in ds for op in (("parse", d, 0), ("dump", d, 0))]
        try:
            items += build_items(c)
        except RuntimeError as e:
            failures += 1
            run.report("C07/unexpected-exception", {**c.describe(), "ops": [{"op": "parse", "data": ds[0].hex(), "observed": str(e.__cause__ or e)[:300], "expected": "a value or EOFError"}]})

    mism = run_items(run, items)
    report_unexplained(run, mism, explained, "corr_arr (Model.Reader/Writer vs arrays of every element kind and length form)")
    # ---- fixed-size arrays that occupy no bytes still have a fixed element count ----
    from dissect.cstruct.exceptions import ArraySizeError as _ASE
    cs_z = structs.load("struct E { };\nstruct main { uint8 a; uint8 z[0]; E e[3]; uint16 g[2][0]; uint8 b; };", compiled=False)
    for fname, bad in (("z", [7]), ("e", [cs_z.E(), cs_z.E()]), ("g", [[1], [2]])):
        n_oracle += 1
        v = cs_z.main(bytes([1, 2]))
        try:
            setattr(v, fname, bad)
            out = v.dumps()
            failures += 1
            run.report("C07/wrong-count-accepted", {"definition": "struct E { }; struct main { uint8 a; uint8 z[0]; E e[3]; uint16 g[2][0]; uint8 b; };",
                       "ops": [{"op": f"assign {fname} a value with another number of elements, dump", "observed": out.hex(), "expected": "ArraySizeError"}]})
        except _ASE:
            pass
        except Exception as e:  # noqa: BLE001
            failures += 1
            run.report("C07/wrong-count-accepted", {"definition": "struct E { }; struct main { uint8 a; uint8 z[0]; E e[3]; uint16 g[2][0]; uint8 b; };",
                       "ops": [{"op": f"assign {fname} a value with another number of elements, dump", "observed": f"{type(e).__name__}: {e}", "expected": "ArraySizeError"}]})

    # ---- recorded finding: a count that is negative already at definition time ----
    n_oracle += 1
    try:
        cs_n = structs.load("#define N 3\nstruct main { uint8 a; uint8 x[N - 5]; uint8 b; };", compiled=False)
        v = cs_n.main(bytes([1, 2, 3]))
        got = (len(v.x), v.b, len(cs_n.main))
    except Exception as e:  # noqa: BLE001
        got = f"{type(e).__name__}: {e}"
    if got != (0, 2, 2):
        failures += 1
        run.report("C07/negative-count-at-definition" if isinstance(got, str) and got.startswith("ValueError: __len__() should return >= 0") else "C07/negative-count",
                   {"definition": "#define N 3 / struct main { uint8 a; uint8 x[N - 5]; uint8 b; };", "ops": [{"op": "load + parse 010203", "observed": repr(got), "expected": "(0, 2, 2): x holds max(0, N - 5) = 0 elements"}]})

    F.obligation_fallback(run, ok, bool(failures or mism))
    F.finish_cov(run, items, mism,
                 "templates: every element kind {ints 1..8 bytes, int24/uint48, char, wchar, enum over uint8/uint24, flag, uleb/ileb128, struct, float} x "
                 "every length form {[0],[1],[3],[n],[n*2+m],[n-3] (negative -> 0),[(m&3)+K] (constant),[],[EOF]} x {1,2} dimensions x {compiled, interpreted} x {<,>}; "
                 "plus random array-rich definitions; ops: parse, dump, dump with one element dropped/duplicated. Oracle: independent reference reader.",
                 {"template_items": n_templates, "oracle_only_checks": n_oracle, "oracle_failures": failures}, exhaustive=True)
    run.assumptions += ["zero-size elements under [EOF] are a recorded finding (non-termination), not generated here",
                        "wchar arrays: inputs that are invalid UTF-16 may be rejected with UnicodeDecodeError"]


def replay(rep: dict) -> int:
    c = F.replay_case(rep)
    cs = c.load()
    op = rep["ops"][0]
    if "data" not in op:
        print("re-run ./check C07")
        return 1
    d = bytes.fromhex(op["data"])
    r = structs.parse(cs, "main", d, 0)
    print("parse:", r[0], repr(r[1])[:300] if r[0] == "err" else (structs.py_value(r[1], cs.resolve("main")), r[2]))
    print("expected:", op.get("expected"))
    return 1
