"""C08 — truncated or failing input never fabricates data; a failed parse leaves no residue.

Proof:          coq/Props/C08.v
Correspondence: parse of EVERY cut of accepted inputs (all cut points for inputs <= 40 bytes) vs Model.Reader, both readers
Oracle:         for every cut: EOFError (or another error), or exactly the value of the complete input; fault injection:
                a stream that delivers a short read / raises at the k-th read call, for every k; residue: a good parse after
                a failed one equals a parse on a fresh cstruct
"""
from __future__ import annotations

import io
import random

from .. import structs
from ..common import Run
from ..structcorr import Case, build_items, report_unexplained, run_items
from . import _family as F


class FaultyStream(io.BytesIO):
    """BytesIO that misbehaves at the k-th read() call: 'short' returns one byte less than available/requested, 'raise' raises OSError."""

    def __init__(self, data: bytes, k: int, mode: str):
        super().__init__(data)
        self.k, self.mode, self.calls = k, mode, 0

    def read(self, n=-1):
        self.calls += 1
        if self.calls == self.k:
            if self.mode == "raise":
                raise OSError("injected stream fault")
            got = super().read(n)
            if len(got) > 0:
                self.seek(self.tell() - 1)
                return got[:-1]
            return got
        return super().read(n)


def strip_union_buffers(pv):
    """Union values are compared by their members: the retained raw buffer may be shorter when only the union's tail padding is missing."""
    if isinstance(pv, tuple) and len(pv) == 3 and pv[0] == "union":
        return ("union", strip_union_buffers(pv[2]))
    if isinstance(pv, (list, tuple)):
        return type(pv)(strip_union_buffers(x) for x in pv)
    return pv


def value_key(cs, T, r):
    if r[0] != "ok":
        return ("err", type(r[1]).__name__)
    try:
        return ("ok", strip_union_buffers(structs.py_value(r[1], T)), r[2])
    except structs.HasNaN:
        return ("nan",)


def check(run: Run) -> None:
    rng = random.Random(f"C08-{run.seed}")
    thorough = run.tier == "thorough"
    ok = run.prove("Props/C08.v")
    items, explained, failures = [], set(), 0
    n_cuts = n_faults = n_residue = 0
    # aligned unions (their size is rounded up: the cut can fall inside a member or inside the tail padding), alone, nested and in arrays
    FIXED = [Case(t, align=True, compiled=comp, endian=e) for comp in (False, True) for e in ("<", ">") for t in (
        "union main { uint32 a; uint16 b; };", "union main { uint64 q; char tag[10]; };", "union U { uint32 a; uint8 b[5]; };\nstruct main { uint8 k; U u; uint16 t; };",
        "union U { uint64 q; uint16 w[5]; };\nstruct main { U us[2]; uint8 t; };", "union main { struct { uint8 x; uint32 y; } s; uint16 h[5]; };")]
    n_gen = 1500 if thorough else 300
    for i in range(n_gen + len(FIXED)):
        c = FIXED[i - n_gen] if i >= n_gen else F.gen_case(rng, depth=2, unions=(i % 5 == 0), max_fields=5, eof=False)
        data = bytes(rng.randrange(1, 256) for _ in range(40)) if i >= n_gen else F.random_data(rng, rng.choice([6, 12, 20, 30, 40]))
        try:
            cs = c.load()
            T = cs.resolve("main")
        except Exception:  # noqa: BLE001
            continue
        full = structs.parse(cs, "main", data, 0)
        fk = value_key(cs, T, full)
        if fk[0] != "ok":
            continue
        used = min(fk[2], len(data))
        cuts = list(range(0, used)) if used <= 40 else sorted(rng.sample(range(used), 40))
        c.ops = [("parse", data, 0)] + [("parse", data[:k], 0) for k in (cuts if len(cuts) <= 12 else rng.sample(cuts, 12))]
        try:
            its = build_items(c)
        except RuntimeError as e:
            failures += 1
            run.report("C08/unexpected-exception", {**c.describe(), "ops": [{"op": "parse", "data": data.hex(), "observed": str(e.__cause__ or e)[:300], "expected": "a value or EOFError"}]})
            continue
        items += its
        # ---- every cut point ----
        for k in cuts:
            n_cuts += 1
            r = structs.parse(cs, "main", data[:k], 0)
            key = value_key(cs, T, r)
            prob = None
            if key[0] == "ok" and (key[1] != fk[1]):
                prob = {"observed": repr(key[1])[:300], "expected": "EOFError, or the value of the complete input " + repr(fk[1])[:200]}
            elif key[0] == "err" and key[1] not in ("EOFError", "UnicodeDecodeError", "error"):
                prob = {"observed": f"raises {key[1]}", "expected": "EOFError for a premature end of input"}
            elif key[0] == "err" and key[1] == "error":
                # struct.error: only legitimate for a partial trailing element of a to-end array (excluded here)
                prob = {"observed": "raises struct.error", "expected": "EOFError"}
            if prob:
                failures += 1
                for it in its:
                    explained.add(id(it))
                run.report("C08/cut" + ("/compiled" if c.compiled else ""), {**c.describe(), "ops": [{"op": "parse", "data": data.hex(), "cut": k, **prob}]})
                break
        # ---- stream faults at every read call ----
        probe = FaultyStream(data, 10 ** 9, "short")
        try:
            T._read(probe)
        except Exception:  # noqa: BLE001
            pass
        for k in range(1, min(probe.calls, 25) + 1):
            for mode in ("short", "raise"):
                n_faults += 1
                st = FaultyStream(data, k, mode)
                try:
                    with structs.time_limit(2.0):
                        v = T._read(st)
                    key = ("ok", strip_union_buffers(structs.py_value(v, T)))
                except structs.HasNaN:
                    continue
                except (Exception, structs.Hang) as e:  # noqa: BLE001
                    key = ("err", type(e).__name__)
                if key[0] == "ok" and key[1] != fk[1]:
                    failures += 1
                    run.report("C08/fault/" + mode, {**c.describe(), "ops": [{"op": "parse with stream fault", "data": data.hex(), "read_call": k, "mode": mode,
                               "observed": repr(key[1])[:300], "expected": "an error, or the value of the fault-free parse " + repr(fk[1])[:200]}]})
                    break
        # ---- residue: fail, then parse again with the same types ----
        n_residue += 1
        if used > 0:
            structs.parse(cs, "main", data[:used - 1], 0)
            structs.parse(cs, "main", data[:used // 2], 0)
        again = value_key(cs, T, structs.parse(cs, "main", data, 0))
        if again != fk:
            failures += 1
            run.report("C08/residue", {**c.describe(), "ops": [{"op": "parse after failed parses", "data": data.hex(), "observed": repr(again)[:300], "expected": repr(fk)[:300]}]})

    # ---- every cut through the documented call form T(bytes) as well (structures that start with char members have a construction shortcut) ----
    for text in ("struct main { char magic[4]; uint32 length; uint16 version; };", "struct main { char c; uint8 x; uint16 y; };",
                 "struct main { char tag[2]; char sub[2]; uint8 n; };", "struct main { char only[3]; };"):
        for compiled in (False, True):
            cs2 = structs.load(text, endian="<", compiled=compiled)
            T2 = cs2.main
            full = bytes(range(0x41, 0x41 + T2.size))
            ref = structs.py_value(T2(full), T2)
            for k in range(0, T2.size):
                n_cuts += 1
                try:
                    got = ("ok", structs.py_value(T2(full[:k]), T2))
                except Exception as e:  # noqa: BLE001
                    got = ("err", type(e).__name__)
                if got[0] == "ok" and got[1] != ref:
                    failures += 1
                    run.report("C08/cut/call-form", {"definition": text, "cstruct_kwargs": {"endian": "<", "pointer": None}, "load_kwargs": {"compiled": compiled, "align": False},
                               "ops": [{"op": "main(bytes) with the input cut", "data": full.hex(), "cut": k, "observed": repr(got[1])[:200], "expected": "EOFError, or the value of the complete input " + repr(ref)[:160]}]})
                    break

    # ---- a pointer dereference that fails (short read or exception while the target is read) leaves the stream where it was ----
    for compiled in (False, True):
        for tgt, tsz in (("uint32", 4), ("T", 3), ("char", 5)):
            text = "struct T { uint8 a; uint16 b; }; struct main { uint8 k; " + tgt + " *p; uint8 after; };"
            cs2 = structs.load(text, endian="<", pointer="uint16", compiled=compiled)
            data2 = bytes([7, 12, 0, 9]) + bytes([1, 8, 0, 10]) + bytes([0x11, 0x22, 0x33, 0x44]) + b"abcd\x00" + bytes(4)
            for mode in ("short", "raise"):
                for k in range(1, 9):
                    n_faults += 1
                    st = FaultyStream(data2, 10 ** 9, mode)
                    try:
                        v = cs2.main(st)
                    except Exception:  # noqa: BLE001
                        continue
                    pos = st.tell()
                    st.calls, st.k = 0, k                    # the fault hits the k-th read call of the dereference
                    try:
                        v.p.dereference()
                        failed = False
                    except (Exception, structs.Hang):  # noqa: BLE001
                        failed = True
                    st.k = 10 ** 9
                    here = st.tell()
                    try:
                        nxt = cs2.main(st)
                        nk = (nxt.k, nxt.after)
                    except Exception as e:  # noqa: BLE001
                        nk = type(e).__name__
                    if here != pos or nk != (1, 10):
                        failures += 1
                        run.report("C08/fault/dereference", {"definition": text, "cstruct_kwargs": {"endian": "<", "pointer": "uint16"}, "load_kwargs": {"compiled": compiled, "align": False},
                                   "ops": [{"op": "dereference with stream fault, then parse the next record", "data": data2.hex(), "read_call": k, "mode": mode, "dereference_failed": failed,
                                            "observed": {"stream position": here, "next record (k, after)": nk}, "expected": {"stream position": pos, "next record (k, after)": (1, 10)}}]})
                        break

    mism = run_items(run, items)
    report_unexplained(run, mism, explained, "corr_cut (Model.Reader.read_top on truncated inputs vs the implementation)")
    F.obligation_fallback(run, ok, bool(failures or mism))
    F.finish_cov(run, items, mism,
                 "random definitions without to-end arrays x {compiled, interpreted} x {packed, aligned}: every cut point of the consumed prefix (all for <= 40 bytes) "
                 "judged on the implementation, a sample of 12 cuts per input also compared with the model; a short read / an exception injected at every read call "
                 "(up to 25 calls); failed parses followed by a good one (residue)",
                 {"oracle_only_checks": n_cuts + n_faults + n_residue, "cuts": n_cuts, "faults": n_faults, "residue_histories": n_residue, "oracle_failures": failures})
    run.assumptions += ["to-end-of-stream arrays are excluded (their extent is the end of input by definition)",
                        "stream faults are judged on the implementation only (the model's streams are lists)"]


def replay(rep: dict) -> int:
    c = F.replay_case(rep)
    cs = c.load()
    T = cs.resolve("main")
    op = rep["ops"][0]
    d = bytes.fromhex(op["data"])
    full = value_key(cs, T, structs.parse(cs, "main", d, 0))
    if "cut" in op:
        k = value_key(cs, T, structs.parse(cs, "main", d[:op["cut"]], 0))
        bad = k[0] == "ok" and k[1] != full[1]
        print("cut", op["cut"], "->", k, "| full:", full)
        return 1 if bad or (k[0] == "err" and k[1] not in ("EOFError", "UnicodeDecodeError")) else 0
    print("re-run ./check C08")
    return 1
