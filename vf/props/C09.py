"""C09 — stream discipline: position-independent and consistent across input kinds and call forms.

Proof:          coq/Props/C09.v
Correspondence: parse at start offsets p > 0 (aligned p for aligned structures) vs Model.Reader
Oracle:         parse at p == parse of data[p:] (positions shifted); independence from bytes before p and after the extent;
                bytes / bytearray / memoryview (also sliced views) / BytesIO and T(x) / T.read(x) / T.reads(x) / cs.read(name, x)
                all agree; consecutive reads from one stream continue where the previous one ended
"""
from __future__ import annotations

import io
import random

from .. import structs
from ..common import Run
from ..structcorr import build_items, report_unexplained, run_items
from . import _family as F


def key(T, v):
    try:
        return structs.py_value(v, T)
    except structs.HasNaN:
        return "nan"


def has_dynamic_union(t, seen=None) -> bool:
    from dissect.cstruct.types import BaseArray, Pointer, Structure, Union

    if issubclass(t, BaseArray):
        return has_dynamic_union(t.type)
    if issubclass(t, Pointer):
        return False
    if issubclass(t, Structure):
        if issubclass(t, Union) and t.size is None:
            return True
        return any(has_dynamic_union(f.type) for f in t.__fields__)
    return False


def attempt(f):
    try:
        with structs.time_limit(2.0):
            return ("ok", f())
    except (Exception, structs.Hang) as e:  # noqa: BLE001
        return ("err", type(e).__name__)


def all_sizes(v, depth=0):
    """the recorded _sizes of a parsed value and of every structure / union inside it"""
    out = []
    sz = getattr(v, "__dict__", {}).get("_sizes")
    if isinstance(sz, dict):
        out.append(sorted((k, n) for k, n in sz.items() if n))
        vals = getattr(v, "__dict__", {}).get("_values") or {}
        for k in sorted(vals):
            out.append((k, all_sizes(vals[k], depth + 1)))
    elif isinstance(v, list) and depth < 6:
        out.append([all_sizes(x, depth + 1) for x in v])
    return out


def check(run: Run) -> None:
    rng = random.Random(f"C09-{run.seed}")
    thorough = run.tier == "thorough"
    ok = run.prove("Props/C09.v")
    items, explained, failures, n_oracle = [], set(), 0, 0
    DYN_UNIONS = ["struct main { uint8 k; union { char s[]; uint8 n; } u; uint16 t; };", "union main { uint8 n; char s[n]; };",
                  "struct main { union { uint16 a[]; uint8 b; uint32 c; } u; uint8 t; };", "union main { uint8 n; uint16 w[n & 3]; uint8 z[2]; };",
                  "struct main { uint8 n; union { uint8 v[n]; uint16 w; } u; union { char q[]; } r; };"]
    total = 1200 if thorough else 260
    # mixed alignment modes (helper type in one mode, `main` in the other), each at two start offsets
    mixed = [c for c in F.mixed_mode_cases(rng) for _ in range(2)]
    pending_mixed = []
    for i in range(total + 6 * len(DYN_UNIONS) + len(mixed)):
        if i >= total + 6 * len(DYN_UNIONS):
            import copy
            c = copy.copy(mixed[i - total - 6 * len(DYN_UNIONS)])
        elif i >= total:
            from ..structcorr import Case
            c = Case(DYN_UNIONS[(i - total) % len(DYN_UNIONS)], compiled=(i % 2 == 0), endian=rng.choice("<>"))
        else:
            c = F.gen_case(rng, depth=2, unions=(i % 3 == 0), dyn_unions=(i % 6 == 0), max_fields=5, eof=(i % 7 == 0))
        body = F.random_data(rng, rng.choice([8, 16, 30, 48]))
        if getattr(c, "_mixed", False):
            body = rng.choice(c._datas)
        main_aligned = c.history[-1][2] if getattr(c, "_mixed", False) else c.align
        p = rng.choice([16, 32, 48]) if main_aligned or (getattr(c, "_mixed", False) and rng.random() < 0.5) else rng.choice([1, 2, 3, 5, 8, 13, 16])
        pre = rng.randbytes(p)
        data = pre + body
        c.ops = [("parse", data, p), ("parse", body, 0)]
        try:
            its = build_items(c)
        except RuntimeError as e:
            failures += 1
            run.report("C09/unexpected-exception", {**c.describe(), "ops": [{"op": "parse", "data": data.hex(), "observed": str(e.__cause__ or e)[:300], "expected": "a value or EOFError"}]})
            continue
        items += its
        cs, T = getattr(c, "_cs", None), getattr(c, "_T", None)
        if cs is None:
            continue
        n_oracle += 1
        probs = []
        a = structs.parse(cs, "main", data, p)
        b = structs.parse(cs, "main", body, 0)
        ka = ("ok", key(T, a[1]), a[2] - p) if a[0] == "ok" else ("err", type(a[1]).__name__)
        kb = ("ok", key(T, b[1]), b[2]) if b[0] == "ok" else ("err", type(b[1]).__name__)
        if "nan" in (ka[1] if ka[0] == "ok" else "", ):
            continue
        if ka != kb:
            probs.append({"what": f"parse at p={p} vs parse of data[p:]", "observed": repr(ka)[:300], "expected": repr(kb)[:300]})
        elif a[0] == "ok" and not c.align and all_sizes(a[1]) != all_sizes(b[1]):
            # the recorded member sizes are part of what parsing returns (aligned structures aside: their tail padding depends on p by definition)
            probs.append({"what": f"recorded sizes at p={p} vs at 0", "observed": repr(all_sizes(a[1]))[:300], "expected": repr(all_sizes(b[1]))[:300]})
        if a[0] == "ok":
            used = a[2]
            # bytes before p and after the extent do not matter (to-end arrays aside)
            other = bytes(x ^ 0xFF for x in pre) + data[p:used] + (b"" if "[EOF]" in c.text else bytes(x ^ 0x55 for x in data[used:]))
            o = structs.parse(cs, "main", other, p)
            ko = ("ok", key(T, o[1]), o[2] - p) if o[0] == "ok" else ("err", type(o[1]).__name__)
            if ko != ka:
                probs.append({"what": "changing bytes before p / after the extent", "observed": repr(ko)[:300], "expected": repr(ka)[:300]})
            # input kinds and call forms (all start at the beginning of `body`)
            want = kb
            forms = {
                "T(bytes)": lambda: T(body), "T(bytearray)": lambda: T(bytearray(body)), "T(memoryview)": lambda: T(memoryview(body)),
                "T(memoryview slice)": lambda: T(memoryview(data)[p:]), "T(BytesIO)": lambda: T(io.BytesIO(body)),
                "T.read(bytes)": lambda: T.read(body), "T.read(BytesIO)": lambda: T.read(io.BytesIO(body)), "T.read(memoryview slice)": lambda: T.read(memoryview(data)[p:]),
                "T.reads(bytes)": lambda: T.reads(body), "T.reads(bytearray)": lambda: T.reads(bytearray(body)), "T.reads(memoryview slice)": lambda: T.reads(memoryview(data)[p:]),
                "cs.read(name, bytes)": lambda: cs.read("main", body), "cs.read(name, BytesIO)": lambda: cs.read("main", io.BytesIO(body)),
                "cs.read(name, memoryview slice)": lambda: cs.read("main", memoryview(data)[p:]),
            }
            import mmap

            def with_mmap(call):
                mm = mmap.mmap(-1, max(len(data), 1))
                try:
                    mm.write(data)
                    mm.seek(p)
                    v = call(mm)
                    if mm.tell() != used and "[EOF]" not in c.text:
                        raise AssertionError(f"mmap left at {mm.tell()}, expected {used}")
                    return v
                finally:
                    try:
                        mm.close()
                    except BufferError:
                        pass

            if len(data):
                forms.update({"T(mmap at p)": lambda: with_mmap(lambda mm: T(mm)), "T.read(mmap at p)": lambda: with_mmap(lambda mm: T.read(mm)),
                              "cs.read(name, mmap at p)": lambda: with_mmap(lambda mm: cs.read("main", mm))})
            for name, f in forms.items():
                r = attempt(f)
                if "mmap" in name and r == ("err", "ValueError"):
                    continue     # an mmap refuses to seek past its end (the tail alignment of an aligned structure at the end of the input): the stream's own limit
                kr = ("ok", key(T, r[1])) if r[0] == "ok" else r
                if kr[:2] != want[:2]:
                    probs.append({"what": name, "observed": repr(kr)[:300], "expected": repr(want[:2])[:300]})
            # stream position after a read from a positioned stream, and a second read continuing from there
            st = io.BytesIO(data + data[p:])
            st.seek(p)
            r1 = attempt(lambda: T.read(st))
            if r1[0] == "ok" and st.tell() != used and "[EOF]" not in c.text:
                probs.append({"what": "stream position after T.read(stream at p)", "observed": st.tell(), "expected": used})
            if r1[0] == "ok" and "[EOF]" not in c.text and not c.align:
                pos2 = st.tell()
                r2 = attempt(lambda: T.read(st))
                d2 = structs.parse(cs, "main", (data + data[p:])[pos2:], 0)
                k2 = ("ok", key(T, r2[1])) if r2[0] == "ok" else r2
                kd = ("ok", key(T, d2[1])) if d2[0] == "ok" else ("err", type(d2[1]).__name__)
                if k2[:2] != kd[:2]:
                    probs.append({"what": "second read from the same stream", "observed": repr(k2)[:300], "expected": repr(kd)[:300]})
        if probs:
            failures += 1
            for it in its:
                explained.add(id(it))
            sig = "C09/" + probs[0]["what"].split(" ")[0]
            if F.is_mixed(c) and F.misaligned_embedded(T) and all(pr["what"].startswith(("parse at p", "recorded sizes", "changing", "second read", "stream position", "T(mmap", "T.read(mmap", "cs.read(name, mmap")) for pr in probs):
                # recorded finding (see C01): the tail padding of an aligned structure follows the ABSOLUTE stream position, so a packed structure that
                # embeds one at an unaligned offset parses differently at different start offsets.  Only when the readers do what the model does.
                pending_mixed.append((its, {**c.describe(), "ops": [{"op": "parse", "data": data.hex(), "p": p, "problems": probs[:4]}]}))
                continue
            if has_dynamic_union(T) and all(pr["what"].startswith(("changing", "second read", "stream position")) for pr in probs):
                sig = "C09/dynamic-union-extent"
            run.report(sig, {**c.describe(), "ops": [{"op": "parse", "data": data.hex(), "p": p, "problems": probs[:4]}]})

    # long NUL-terminated strings (block boundaries of buffered scanners: 255..257, 511..513): the stream is left right after the terminator
    import io as _io
    for ln in (0, 1, 255, 256, 257, 511, 512, 513, 1000):
        for compiled in (False, True):
            for p0 in (0, 3):
                body = bytes((i % 200) + 33 for i in range(ln))
                blob = bytes(p0) + body + b"\x00" + (0x5040302).to_bytes(4, "little") + b"zz"
                cs2 = structs.load("struct main { char s[]; uint32 tail; };", endian="<", compiled=compiled)
                st = _io.BytesIO(blob)
                st.seek(p0)
                n_oracle += 1
                try:
                    v = cs2.main(st)
                    got = (bytes(v.s), v.tail, st.tell())
                except Exception as e:  # noqa: BLE001
                    got = repr(e)[:200]
                want = (body, 0x5040302, p0 + ln + 5)
                if got != want:
                    failures += 1
                    run.report("C09/long-string", {"definition": "struct main { char s[]; uint32 tail; };", "cstruct_kwargs": {"endian": "<", "pointer": None}, "load_kwargs": {"compiled": compiled, "align": False},
                               "ops": [{"op": "parse at p", "p": p0, "string_length": ln, "observed": repr(got)[-120:], "expected": repr(want)[-120:]}]})

    mism = run_items(run, items)
    bad_ids = {id(m) for m in mism}
    for its_, rep in pending_mixed:
        run.report("C09/parse" if any(id(x) in bad_ids for x in its_) else "C09/aligned-structure-at-unaligned-offset-in-packed-structure", rep)
    report_unexplained(run, mism, explained, "corr_offsets (Model.Reader.read_top at position p vs the implementation)")
    F.obligation_fallback(run, ok, bool(failures or mism))
    F.finish_cov(run, items, mism,
                 "random definitions x {compiled, interpreted} x {packed, aligned} parsed at start offsets p in {1,2,3,5,8,13,16} (multiples of 16 when aligned) and at 0; "
                 "bytes before p and after the extent inverted; 14 combinations of input kind (bytes, bytearray, memoryview, sliced memoryview, BytesIO) and call form; "
                 "stream position afterwards and a second read from the same stream",
                 {"oracle_only_checks": n_oracle * 18, "oracle_failures": failures})
    run.assumptions += ["recorded field sizes (_sizes) are not compared: the statement speaks of values and positions",
                        "aligned structures are parsed at positions that are multiples of 16 (the largest built-in alignment)"]


def replay(rep: dict) -> int:
    print("re-run ./check C09; the replay holds the definition, configuration, data and offset p")
    return 1
