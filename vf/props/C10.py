"""C10 — expressions evaluate with C precedence and associativity, repeatably.

Proof:          coq/Props/C10.v  (eval_correct, eval_repeatable, rewrite_idempotent, lexer lemmas)
Tie 1:          prec_table / binary_ops / unary_ops / minus_marker / prec_cmp regenerated from expression.py
Correspondence: Expression(cs, text).evaluate(ctx) and evaluation histories vs Model.Expr (vm_compute)
Oracle:         denotation of the generated parse tree (C rules written independently in Python)
"""
from __future__ import annotations

import itertools
import random

from ..common import Run, clist, copt, cpair, cstr, cz, run_shards

BINOPS = ["|", "^", "&", "<<", ">>", "+", "-", "*", "/", "%"]
LEVEL = {"|": 0, "^": 1, "&": 2, "<<": 3, ">>": 3, "+": 4, "-": 4, "*": 5, "/": 5, "%": 5}
IDENTS = ["a", "b", "u", "x", "l", "A1", "_t", "ul", "U", "o", "e", "size", "B", "f0", "uu", "L"]
SIZEOF_NAMES = ["uint32", "char", "int24", "uint128", "wchar", "WORD", "uleb128", "nosuch", "void"]


# ------------------------------------------------------------------------------------------------
# trees: ("lit", text, value) | ("id", name) | ("sizeof", name) | ("par", e) | ("un", op, e) | ("bin", op, l, r)
# ------------------------------------------------------------------------------------------------
def gen_literal(rng: random.Random):
    v = rng.choice([0, 1, 2, 3, 5, 7, 8, 10, 15, 16, 31, 64, 100, 255, 256, 1000, 65535, rng.randrange(0, 1 << 20)])
    base = rng.choice(["d", "d", "d", "x", "X", "b", "o"])
    if base == "d":
        t = str(v)
    elif base == "x":
        t = "0x" + format(v, rng.choice(["x", "X"]))
    elif base == "X":
        t = "0X" + format(v, rng.choice(["x", "X"]))
    elif base == "b":
        t = rng.choice(["0b", "0B"]) + format(v, "b")
    else:
        t = "0" + format(v, "o") if v else "0"
    suf = rng.choice(["", "", "", "u", "U", "l", "L", "ul", "UL", "lu", "ll", "LL", "ull", "llu", "uLL", "Ul"])
    return ("lit", t + suf, v)


def gen_tree(rng: random.Random, depth: int, level: int = 0):
    """A tree that is well-formed at `level` of the stratified C grammar."""
    if depth <= 0 or rng.random() < 0.25:
        k = rng.random()
        if k < 0.55:
            return gen_literal(rng)
        if k < 0.85:
            return ("id", rng.choice(IDENTS))
        if k < 0.93:
            return ("sizeof", rng.choice(SIZEOF_NAMES))
        return ("par", gen_tree(rng, depth - 1, 0))
    k = rng.random()
    if k < 0.18:
        return ("un", rng.choice(["-", "~"]), gen_tree(rng, depth - 1, 6))
    if k < 0.30 or level > 5:
        return ("par", gen_tree(rng, depth - 1, 0))
    ops = [o for o in BINOPS if LEVEL[o] >= level]
    o = rng.choice(ops)
    return ("bin", o, gen_tree(rng, depth - 1, LEVEL[o]), gen_tree(rng, depth - 1, LEVEL[o] + 1))


def tokens_of(t) -> list[str]:
    k = t[0]
    if k == "lit":
        return [t[1]]
    if k == "id":
        return [t[1]]
    if k == "sizeof":
        return ["sizeof", "(", t[1], ")"]
    if k == "par":
        return ["(", *tokens_of(t[1]), ")"]
    if k == "un":
        return [t[1], *tokens_of(t[2])]
    return [*tokens_of(t[2]), t[1], *tokens_of(t[3])]


def render(tokens: list[str], rng: random.Random | None) -> str:
    """Join tokens; two word-like tokens always get a blank, everything else gets random blanks."""
    out = ""
    prev = None
    for tok in tokens:
        need = prev is not None and (prev[-1].isalnum() or prev[-1] == "_") and (tok[0].isalnum() or tok[0] == "_")
        if rng is None:
            sep = " " if prev is not None else ""
        else:
            sep = rng.choice(["", "", " ", "  ", "\t", " \t "])
            if need and not sep:
                sep = " "
        out += sep + tok
        prev = tok
    if rng is not None and rng.random() < 0.2:
        out = rng.choice([" ", "\t"]) + out + rng.choice(["", " "])
    return out


class Undefined(Exception):
    pass


def denote(t, ctx: dict, consts: dict, sizes: dict) -> int:
    """C semantics over unbounded ints, written independently of the implementation and of the model."""
    k = t[0]
    if k == "lit":
        return t[2]
    if k == "id":
        if t[1] in ctx:
            return ctx[t[1]]
        if t[1] in consts:
            return consts[t[1]]
        raise Undefined("unbound " + t[1])
    if k == "sizeof":
        if sizes.get(t[1]) is None:
            raise Undefined("sizeof " + t[1])
        return sizes[t[1]]
    if k == "par":
        return denote(t[1], ctx, consts, sizes)
    if k == "un":
        v = denote(t[2], ctx, consts, sizes)
        return -v if t[1] == "-" else ~v
    a = denote(t[2], ctx, consts, sizes)
    b = denote(t[3], ctx, consts, sizes)
    o = t[1]
    if o in ("/", "%"):
        if b == 0:
            raise Undefined("division by zero")
        if a < 0 or b < 0:
            raise Undefined("C and Python differ on negative operands; outside the statement")
        return a // b if o == "/" else a % b
    if o in ("<<", ">>"):
        if b < 0 or b > 200:
            raise Undefined("shift count")
        return a << b if o == "<<" else a >> b
    return {"|": a | b, "^": a ^ b, "&": a & b, "+": a + b, "-": a - b, "*": a * b}[o]


def tree_str(t) -> str:
    return render(tokens_of(t), None)


# ------------------------------------------------------------------------------------------------
# implementation runner
# ------------------------------------------------------------------------------------------------
def make_cs(consts: dict):
    from dissect.cstruct import cstruct

    cs = cstruct()
    cs.consts = dict(consts)
    return cs


def sizes_env() -> dict:
    from dissect.cstruct import cstruct

    cs = cstruct()
    out = {}
    for n in SIZEOF_NAMES:
        try:
            out[n] = len(cs.resolve(n))
        except Exception:
            out[n] = None
    return out


class TooBig(Exception):
    pass


def magnitude_ok(text: str, ctxs: list[dict], consts: dict) -> bool:
    """Filter only: re-evaluates with instrumented operator tables and rejects cases whose intermediate
    values are astronomically large (a 2^40-bit shift would stall the model's Z arithmetic, not refute anything)."""
    from dissect.cstruct.expression import Expression

    def wrap2(f, shift):
        def g(a, b):
            if shift and b > 300:
                raise TooBig
            r = f(a, b)
            if r.bit_length() > 700:
                raise TooBig
            return r
        return g

    class Probe(Expression):
        binary_operators = {k: wrap2(f, k in ("<<", ">>")) for k, f in Expression.binary_operators.items()}

    try:
        e = Probe(make_cs(consts), text)
    except Exception:
        return True
    for c in ctxs:
        try:
            e.evaluate(dict(c))
        except TooBig:
            return False
        except Exception:
            pass
    return True


def impl_eval(text: str, ctx: dict, consts: dict):
    from dissect.cstruct.expression import Expression

    try:
        return int(Expression(make_cs(consts), text).evaluate(dict(ctx)))
    except RecursionError:
        raise
    except Exception:
        return None


def impl_history(text: str, ctxs: list[dict], consts: dict):
    from dissect.cstruct.expression import Expression

    try:
        e = Expression(make_cs(consts), text)
    except Exception:
        return [None] * len(ctxs)
    out = []
    for c in ctxs:
        try:
            out.append(int(e.evaluate(dict(c))))
        except Exception:
            out.append(None)
    return out


# ------------------------------------------------------------------------------------------------
# case generation
# ------------------------------------------------------------------------------------------------
def gen_env(rng: random.Random):
    ctx = {n: rng.choice([0, 1, 2, 3, 4, 7, 9, 10, 16, 200, 4096, -1, -5]) for n in rng.sample(IDENTS, rng.randrange(0, 7))}
    consts = {n: rng.choice([0, 1, 2, 5, 6, 12, 100, 0x7FFF, -3]) for n in rng.sample(IDENTS, rng.randrange(0, 7))}
    return ctx, consts


def exhaustive_small() -> list:
    """All `x op1 y op2 z` and unary placements over fixed distinguishing operands."""
    trees = []
    L = lambda v: ("lit", str(v), v)  # noqa: E731
    for o1, o2 in itertools.product(BINOPS, repeat=2):
        for (x, y, z) in ((7, 2, 1), (29, 3, 2)):
            # the tree C prescribes for the flat text x o1 y o2 z
            if LEVEL[o1] >= LEVEL[o2]:
                t = ("bin", o2, ("bin", o1, L(x), L(y)), L(z))
            else:
                t = ("bin", o1, L(x), ("bin", o2, L(y), L(z)))
            trees.append(t)
    for o in BINOPS:
        for u in ("-", "~"):
            trees.append(("bin", o, ("un", u, L(9)), L(2)))
            trees.append(("bin", o, L(9), ("un", u, L(2))))
            trees.append(("un", u, ("par", ("bin", o, L(9), L(2)))))
            trees.append(("un", u, ("un", "-", L(4))))
            trees.append(("bin", o, ("id", "u"), L(3)))
            trees.append(("bin", o, L(3), ("un", u, ("id", "u"))))
    return trees


def exhaustive_triples() -> list:
    trees = []
    L = lambda v: ("lit", str(v), v)  # noqa: E731

    def build(ops, vals):
        # precedence-climbing construction of the tree C prescribes for a flat operator sequence
        pos = [0]

        def parse(level):
            lhs = L(vals[pos[0]])
            while pos[0] < len(ops) and LEVEL[ops[pos[0]]] >= level:
                o = ops[pos[0]]
                pos[0] += 1
                rhs = parse(LEVEL[o] + 1)
                lhs = ("bin", o, lhs, rhs)
            return lhs

        return parse(0)

    for ops in itertools.product(BINOPS, repeat=3):
        trees.append(build(list(ops), [53, 5, 3, 2]))
    return trees


MALFORMED_ALPHABET = ["1", "2", "0x", "0b", "07", "09", "a", "u", "sizeof", "(", ")", "+", "-", "*", "/", "%", "~", "<<", ">>",
                      "<", ">", "&", "|", "^", " ", "  ", "\t", "$", "1e", "0b12", "12ab", "0x1Fu", "10lul", "5b", "uint32", "_", "1_0"]


def gen_malformed(rng: random.Random) -> str:
    return "".join(rng.choice(MALFORMED_ALPHABET) + rng.choice(["", "", " "]) for _ in range(rng.randrange(0, 7)))


# ------------------------------------------------------------------------------------------------
# Coq rendering
# ------------------------------------------------------------------------------------------------
def cenv(d: dict) -> str:
    return clist((cpair(cstr(k), cz(v)) for k, v in d.items()), "(string * Z)")


def shard_for(cases: list[dict], sizes: dict) -> str:
    sz = clist((cpair(cstr(k), cz(v)) for k, v in sizes.items() if v is not None), "(string * Z)")
    lines = [f"Definition sz (n : string) : option Z := lookup n {sz}.", "Definition checks : list bool := ["]
    items = []
    for c in cases:
        if c["kind"] == "text":
            items.append(f"  option_eqb Z.eqb (eval_string {cenv(c['ctx'])} {cenv(c['consts'])} sz {cstr(c['text'])}) {copt(c['impl'], cz)}")
        else:
            ctxs = clist((cenv(x) for x in c["ctxs"]), "(list (string * Z))")
            exp = clist((copt(v, cz) for v in c["impl"]), "(option Z)")
            n = len(c["ctxs"])
            items.append(
                f"  list_eqb (option_eqb Z.eqb) (match tokenize {cstr(c['text'])} with Some t => eval_history {cenv(c['consts'])} sz t {ctxs} "
                f"| None => repeat None {n}%nat end) {exp}")
    lines.append(";\n".join(items))
    lines.append("].")
    return "\n".join(lines)


# ------------------------------------------------------------------------------------------------
def oracle_case(c: dict, sizes: dict):
    """Returns None if the property holds on this case, else (signature, description)."""
    if c.get("tree") is None:
        return None
    t = c["tree"]
    if c["kind"] == "text":
        try:
            want = denote(t, c["ctx"], c["consts"], sizes)
        except Undefined:
            return None
        if c["impl"] != want:
            return (signature(c, t), {"expression": c["text"], "context": c["ctx"], "constants": c["consts"],
                                      "observed": c["impl"], "expected": want})
        return None
    # history: every evaluation must equal what a fresh object gives, and the denotation
    for i, (ctx, got) in enumerate(zip(c["ctxs"], c["impl"])):
        fresh = impl_eval(c["text"], ctx, c["consts"])
        try:
            want = denote(t, ctx, c["consts"], sizes)
        except Undefined:
            want = fresh
        if got != fresh or got != want:
            return (signature(c, t), {"expression": c["text"], "contexts": c["ctxs"], "constants": c["consts"], "index": i,
                                      "observed": got, "fresh_object": fresh, "expected": want})
    return None


def idents_of(t) -> set:
    if t[0] == "id":
        return {t[1]}
    if t[0] in ("lit", "sizeof"):
        return set()
    return set().union(*[idents_of(x) for x in t[1:] if isinstance(x, tuple)])


def signature(c: dict, t) -> str:
    from dissect.cstruct.expression import Expression

    marker_like = sorted(i for i in idents_of(t) if i in Expression.unary_operators or i in Expression.binary_operators)
    if marker_like:
        return "C10/identifier-collides-with-operator-marker:" + ",".join(marker_like)
    return "C10/other"


def check(run: Run) -> None:
    rng = random.Random(f"C10-{run.seed}")
    thorough = run.tier == "thorough"
    sizes = sizes_env()

    ok = run.prove("Props/C10.v")
    proof_failure = None if ok else run.proof_failure

    cases: list[dict] = []
    # 1. exhaustive small enumerations (canonical spacing and one random spacing each)
    ex = exhaustive_small() + (exhaustive_triples() if thorough else exhaustive_triples()[::7])
    for t in ex:
        for r in (None, rng):
            ctx, consts = ({"u": 11}, {"u": 5}) if "u" in idents_of(t) else ({}, {})
            cases.append({"kind": "text", "tree": t, "text": render(tokens_of(t), r), "ctx": ctx, "consts": consts, "exh": True})
    n_exh = len(cases)
    # 2. random well-formed trees with environments
    for _ in range(6000 if thorough else 900):
        t = gen_tree(rng, rng.randrange(1, 6 if thorough else 5))
        ctx, consts = gen_env(rng)
        cases.append({"kind": "text", "tree": t, "text": render(tokens_of(t), rng), "ctx": ctx, "consts": consts})
    # 3. histories: one object, several contexts
    for _ in range(1500 if thorough else 250):
        t = gen_tree(rng, rng.randrange(1, 5))
        _, consts = gen_env(rng)
        ctxs = [gen_env(rng)[0] for _ in range(rng.randrange(2, 5))]
        cases.append({"kind": "hist", "tree": t, "text": render(tokens_of(t), rng), "ctxs": ctxs, "consts": consts})
    # 4. malformed stream (no tree: only model-vs-implementation agreement is checked)
    for _ in range(2500 if thorough else 400):
        ctx, consts = gen_env(rng)
        cases.append({"kind": "text", "tree": None, "text": gen_malformed(rng), "ctx": ctx, "consts": consts})

    n_before = len(cases)
    cases = [c for c in cases if magnitude_ok(c["text"], [c["ctx"]] if c["kind"] == "text" else c["ctxs"], c["consts"])]
    n_dropped_big = n_before - len(cases)
    n_exh = sum(1 for c in cases[:n_exh] if True) if n_dropped_big == 0 else sum(1 for c in cases if c.get("exh"))
    for c in cases:
        if c["kind"] == "text":
            c["impl"] = impl_eval(c["text"], c["ctx"], c["consts"])
        else:
            c["impl"] = impl_history(c["text"], c["ctxs"], c["consts"])

    # correspondence
    per = 400
    shards = [shard_for(cases[i:i + per], sizes) for i in range(0, len(cases), per)]
    res, errs = run_shards("C10", shards, "Model.Expr")
    mism = [cases[k * per + i] for k, idx in enumerate(res) for i in idx]
    for e in errs:
        run.violation({"kind": "correspondence", "theorem_or_correspondence": "corr_expr", "error": e}, tag="corr-shard-error", no_input=True)

    # oracle on every case (falsification pass) — also the search when something above broke
    failures = []
    for c in cases:
        r = oracle_case(c, sizes)
        if r:
            failures.append((c, r))
    seen_sig = set()
    failures.sort(key=lambda f: len(f[0]["text"]))
    for c, (sig, desc) in failures:
        key = (sig, desc.get("expression")) if sig == "C10/other" else sig
        if key in seen_sig:
            continue
        seen_sig.add(key)
        run.report(sig, {"ops": [{"op": "evaluate", **desc}]})

    # sizeof of a type whose name has several words (recorded finding: the evaluator accepts exactly one token between the parentheses)
    from dissect.cstruct import cstruct as _cstruct
    from dissect.cstruct.expression import Expression as _Expression
    for text, want in [("sizeof(unsigned int)", 4), ("sizeof(unsigned long long) * 2", 16), ("1 + sizeof(signed char)", 2), ("sizeof(unsigned  short)", 2)]:
        cs_ = _cstruct()
        try:
            got = _Expression(cs_, text).evaluate()
        except Exception as e:  # noqa: BLE001
            got = f"{type(e).__name__}: {e}"
        if got != want:
            sig = "C10/sizeof-multi-word-type" if isinstance(got, str) and got.startswith("ExpressionParserError: Invalid sizeof operation") else "C10/other"
            run.report(sig, {"ops": [{"op": "evaluate", "expression": text, "observed": got, "expected": want}]})

    explained = {id(c) for c, _ in failures}
    unexplained = [c for c in mism if id(c) not in explained]
    if unexplained:
        c = min(unexplained, key=lambda c: len(c["text"]))
        run.violation({"kind": "correspondence", "theorem_or_correspondence": "corr_expr (Model.Expr.eval_string vs Expression.evaluate)",
                       "case": {k: v for k, v in c.items() if k != "tree"}, "count": len(unexplained)},
                      tag="corr-" + __import__("hashlib").sha1(c["text"].encode()).hexdigest()[:8], no_input=True)
    if proof_failure and not failures:
        # proofs broke but neither oracle nor correspondence found an input in this run's cases: widen the search
        found = search_more(run, rng, sizes)
        if not found:
            run.violation({"kind": "obligation", "theorem_or_correspondence": proof_failure.get("lemma"), **proof_failure},
                          tag="obligation-" + str(proof_failure.get("lemma")), no_input=True)

    nontrivial = {c["text"] for c in cases if c.get("tree") is not None and c["tree"][0] in ("bin", "un")}
    cov = run.coverage
    cov["evaluations"] = len(cases)
    cov["distinct_nontrivial"] = len(nontrivial)
    cov["traces_validated_against_impl"] = len(cases) - len(mism)
    cov["exhaustive"] = True
    cov["rule"] = ("cases = exhaustive (all operator pairs, %s operator triples, unary placements; %d cases) + random well-formed trees "
                   "rendered with random blanks + evaluation histories on one Expression object + malformed token soup; each evaluated by "
                   "the implementation and by Model.Expr inside coqc (vm_compute); non-trivial = distinct texts whose tree has at least one operator"
                   % ("all" if thorough else "every 7th of the", n_exh))
    cov["distribution"] = {
        "exhaustive_small": n_exh, "random_trees": sum(1 for c in cases if c["kind"] == "text" and c["tree"] is not None) - n_exh,
        "histories": sum(1 for c in cases if c["kind"] == "hist"), "malformed": sum(1 for c in cases if c.get("tree") is None),
        "impl_errors": sum(1 for c in cases if c["kind"] == "text" and c["impl"] is None),
        "max_tokens": max(len(tokens_of(c["tree"])) for c in cases if c.get("tree") is not None),
        "dropped_astronomic_intermediates": n_dropped_big, "correspondence_mismatches": len(mism), "oracle_failures": len(failures),
    }
    cov["samples"] = [{"text": c["text"], "ctx": c.get("ctx", c.get("ctxs")), "consts": c["consts"], "impl": c["impl"]}
                      for c in (cases[0], cases[n_exh + 1], cases[n_exh + 5], cases[-1], cases[-900 if thorough else -405])]
    run.assumptions += ["ASCII expressions; shifts <= 200 bits; / and % judged only for non-negative operands (as the property states)",
                        "Python int semantics of | ^ & << >> + - * // % - ~ are written into Model.ExprOps (bapply/uapply)"]


def search_more(run: Run, rng: random.Random, sizes: dict) -> bool:
    for _ in range(20000):
        t = gen_tree(rng, rng.randrange(1, 6))
        ctx, consts = gen_env(rng)
        c = {"kind": "text", "tree": t, "text": render(tokens_of(t), rng), "ctx": ctx, "consts": consts}
        c["impl"] = impl_eval(c["text"], ctx, consts)
        r = oracle_case(c, sizes)
        if r and run.match_finding(r[0]) is None:
            run.report(r[0], {"ops": [{"op": "evaluate", **r[1]}]})
            return True
    return False


def replay(rep: dict) -> int:
    sizes = sizes_env()
    bad = 0
    for op in rep.get("ops", []):
        if "contexts" in op:
            got = impl_history(op["expression"], op["contexts"], op["constants"])[op["index"]]
        else:
            got = impl_eval(op["expression"], op["context"], op["constants"])
        print("expression", repr(op["expression"]), "observed", got, "expected", op["expected"])
        if got != op["expected"]:
            bad += 1
    print("property", "FAILS" if bad else "holds", "on this replay")
    return 1 if bad else 0
