"""C11 — union members are coherent views of one byte buffer.

Proof:          coq/Props/C11.v
Correspondence: parse / layout / dump of fixed-size unions and histories of member assignments (direct, through nested and anonymous
                structs, arrays) vs Model.Union.union_run
Oracle:         size = largest member (rounded in aligned mode) and parsing consumes it; every member == parsing the member's type from the
                union's bytes; after an assignment every member reflects the new bytes of that member and the old bytes elsewhere
"""
from __future__ import annotations

import io
import random

from .. import canon, structs
from ..common import Run, clist, cstr, cz, run_shards
from ..structcorr import Case, build_items, report_unexplained, run_items
from . import _family as F

MEMBERS = ["uint8 {n};", "uint16 {n};", "uint32 {n};", "uint64 {n};", "int24 {n};", "uint8 {n}[4];", "uint16 {n}[3];", "char {n}[5];", "int32 {n}[2];",
           "struct {{ uint16 x; uint16 y; }} {n};", "struct {{ uint8 x; uint32 y; }} {n};", "struct {{ uint8 p; uint8 q; }};",
           "struct {{ struct {{ uint8 i; uint8 j; }} inn; uint16 k; }} {n};", "uint8 {n}[2][2];", "E {n};",
           "union {{ uint8 x; uint16 y; }} {n};", "union {{ uint16 a; uint8 b[2]; }} {n};"]           # a union nested in the union
PRELUDE = "enum E : uint16 { E_A = 1, E_B = 7 };\n"


def member_bytes_expectation(cs, U, obj, fname, newval):
    """bytes the union must hold after assigning member fname := newval: old dump with the member's encoding written at its offset"""
    f = U.lookup[fname]
    enc = f.type.dumps(newval)
    old = bytes(obj.__dict__.get("_buf") or b"\x00" * U.size)
    off = f.offset or 0
    return old[:off] + enc + old[off + len(enc):]


def check(run: Run) -> None:
    from dissect.cstruct.types import Structure
    from dissect.cstruct.types.structure import UnionProxy

    rng = random.Random(f"C11-{run.seed}")
    thorough = run.tier == "thorough"
    ok = run.prove("Props/C11.v")
    items, explained, failures, n_oracle = [], set(), 0, 0
    hist_checks, hist_meta = [], []

    for i in range(700 if thorough else 150):
        k = rng.randrange(2, 5)
        ms = rng.sample(MEMBERS, k)
        text = PRELUDE + "union main { " + " ".join(m.format(n=f"m{j}") for j, m in enumerate(ms)) + " };"
        c = Case(text, endian=rng.choice("<>"), align=rng.random() < 0.4, compiled=rng.random() < 0.5)
        try:
            cs = c.load()
        except Exception as e:  # noqa: BLE001
            failures += 1
            run.report("C11/definition", {**c.describe(), "ops": [{"op": "load", "observed": f"{type(e).__name__}: {e}", "expected": "a union type"}]})
            continue
        U = cs.resolve("main")
        data = F.random_data(rng, U.size + 3)
        p0 = rng.choice([1, 3, 5, 9])
        c.ops = [("layout",), ("parse", data, 0), ("dump", data, 0), ("parse", bytes([0xAA] * p0) + data, p0)]
        its = build_items(c)
        items += its
        # ---- oracle on the parsed union ----
        n_oracle += 1
        st = io.BytesIO(data)
        u = U._read(st)
        probs = []
        from .C04 import c_layout_ref

        ref = c_layout_ref(U, c.align)
        if ref is not None and U.size != ref[1]:
            probs.append({"what": "size", "observed": U.size, "expected": ref[1]})
        if st.tell() != U.size:
            probs.append({"what": "bytes consumed", "observed": st.tell(), "expected": U.size})

        def members_vs_bytes(obj, buf, label):
            for f in U.__fields__:
                try:
                    want = structs.py_value(f.type._read(io.BytesIO(buf[(f.offset or 0):])), f.type)
                    got = structs.py_value(obj.__dict__[f._name], f.type)
                except structs.HasNaN:
                    continue
                except Exception as e:  # noqa: BLE001
                    probs.append({"what": f"{label}: member {f._name}", "observed": f"{type(e).__name__}: {e}", "expected": "a value"})
                    continue
                if got != want:
                    probs.append({"what": f"{label}: member {f._name} vs parsing its type from the union's bytes", "observed": repr(got)[:200], "expected": repr(want)[:200]})

        members_vs_bytes(u, data[:U.size], "after parse")
        # a union has no alignment requirement of its own on where it starts: parsed at position p it consumes exactly its size
        st2 = io.BytesIO(bytes([0xAA] * p0) + data)
        st2.seek(p0)
        u2 = U._read(st2)
        if st2.tell() != p0 + U.size:
            probs.append({"what": f"bytes consumed when parsed at position {p0}", "observed": st2.tell() - p0, "expected": U.size})
        try:
            if structs.py_value(u2, U) != structs.py_value(u, U):
                probs.append({"what": f"value when parsed at position {p0}", "observed": repr(structs.py_value(u2, U))[:200], "expected": repr(structs.py_value(u, U))[:200]})
        except structs.HasNaN:
            pass
        # ---- assignment history ----
        ops_py, ops_coq, outs = [], [], []
        cfg, ty = structs.cfg_term(cs, text), structs.ty_term(U)
        start_term = structs.value_term(u, U)
        force_f = None
        for step in range(rng.randrange(1, 5)):
            f = force_f or rng.choice(U.__fields__)
            forced, force_f = force_f is not None, None
            before = bytes(u.__dict__["_buf"])
            try:
                if issubclass(f.type, Structure) and f.name is not None and (forced or rng.random() < 0.7):
                    # through the nested structure (proxy)
                    inner = rng.choice([g for g in f.type.__fields__ if not issubclass(g.type, Structure)] or f.type.__fields__)
                    if issubclass(inner.type, Structure):
                        continue
                    nv = structs.gen_py(inner.type, rng)
                    setattr(getattr(u, f._name), inner._name, nv)
                    desc = f"u.{f._name}.{inner._name} = {nv!r}"
                    ops_coq.append(f"UAssignNested {cstr(f._name)} {cstr(inner._name)} {structs.value_term(nv, inner.type)}")
                    newfull = u.__dict__[f._name]
                    newfull = object.__getattribute__(newfull, "__target__") if type(newfull) is UnionProxy else newfull
                    expect = before[:(f.offset or 0)] + f.type.dumps(newfull) + before[(f.offset or 0) + f.type.size:]
                elif issubclass(f.type, Structure) and f.name is None:
                    inner = rng.choice(f.type.__fields__)
                    nv = structs.gen_py(inner.type, rng)
                    setattr(u, inner._name, nv)                      # forwarded anonymous field
                    desc = f"u.{inner._name} = {nv!r}  (field of the anonymous struct member)"
                    ops_coq.append(f"UAssignNested {cstr(f._name)} {cstr(inner._name)} {structs.value_term(nv, inner.type)}")
                    newfull = u.__dict__[f._name]
                    newfull = object.__getattribute__(newfull, "__target__") if type(newfull) is UnionProxy else newfull
                    expect = before[:(f.offset or 0)] + f.type.dumps(newfull) + before[(f.offset or 0) + f.type.size:]
                else:
                    if issubclass(f.type, Structure) and f.name is not None and f.type.size and rng.random() < 0.4:
                        # a whole-member assignment that does not change the union's bytes, followed by an assignment through that member
                        nv = f.type(before[(f.offset or 0):(f.offset or 0) + f.type.size])
                        force_f = f
                    else:
                        nv = structs.gen_py(f.type, rng)
                    expect = member_bytes_expectation(cs, U, u, f._name, nv)
                    setattr(u, f._name, nv)
                    desc = f"u.{f._name} = {nv!r}"
                    ops_coq.append(f"UAssign {cstr(f._name)} {structs.value_term(nv, f.type)}")
                ops_py.append(desc)
                d = u.dumps()
                outs.append(f"(Ok ({structs.value_term(u, U)}, {canon.cbytes(d)}))")
            except structs.HasNaN:
                break
            except NotImplementedError:
                break
            except Exception as e:  # noqa: BLE001
                probs.append({"what": desc if 'desc' in dir() else "assignment", "observed": f"{type(e).__name__}: {e}", "expected": "the assignment to take effect"})
                break
            n_oracle += 1
            now = bytes(u.__dict__["_buf"])
            if now != expect:
                probs.append({"what": desc + ": union bytes", "observed": now.hex(), "expected": expect.hex() + " (new bytes of that member, old bytes elsewhere)"})
            members_vs_bytes(u, now, "after " + desc)
            # the dump reflects the same bytes (bits that are padding in every member aside: only checked for unpadded unions)
            if not c.align and d != now and not any(issubclass(g.type, Structure) for g in U.__fields__):
                probs.append({"what": desc + ": dumps()", "observed": d.hex(), "expected": now.hex()})
        if ops_coq and len(outs) == len(ops_coq):
            hist_checks.append(f"list_eqb ures_eqb (union_run {cfg} (match {ty} with TUnion _ fs _ => fs | _ => [] end) {'true' if c.align else 'false'} {start_term} "
                               f"{clist(ops_coq, 'uop')}) {clist(outs, '(result (value * list Z))')}")
            hist_meta.append((c, data, ops_py))
        if probs:
            failures += 1
            for it in its:
                explained.add(id(it))
            sig = "C11/dump-through-largest-member" if all("dumps()" in p["what"] for p in probs) else "C11/" + probs[0]["what"].split(":")[0][:40]
            run.report(sig, {**c.describe(), "ops": [{"op": "parse + assignments", "data": data.hex(), "history": ops_py, "problems": probs[:3]}]})

    # recorded finding: dumping through the largest member loses bytes other members carry
    from dissect.cstruct import cstruct

    cs = cstruct()
    cs.load("union u { uint8 a; uint32 b; struct { uint8 x; uint32 y; } s; uint16 arr[3]; };", align=True)
    v = cs.u(bytes(range(1, 9)))
    n_oracle += 1
    if v.dumps() != bytes(range(1, 9)):
        failures += 1
        run.report("C11/dump-through-largest-member", {"definition": "union u { uint8 a; uint32 b; struct { uint8 x; uint32 y; } s; uint16 arr[3]; }; (align=True)",
                   "ops": [{"op": "parse + dump", "data": bytes(range(1, 9)).hex(), "observed": v.dumps().hex(), "expected": "0102030405060708: bytes 1..3 are data of b and arr"}]})

    # a union nested in a union (directly, through a structure, or inside a structure member) whose innermost member is a structure
    from functools import reduce as _reduce
    NESTED = [("union U { union { struct { uint8 a; } s; uint8 q; } inner; uint16 x; };", "inner.s", "inner.q", "x"),
              ("union U { struct { union { struct { uint8 a; } s; uint8 q; } inner; } w; uint16 x; };", "w.inner.s", "w.inner.q", "x"),
              ("struct U { union { union { struct { uint8 a; } s; uint8 q; } inner; uint16 x; } v; uint8 t; };", "v.inner.s", "v.inner.q", "v.x")]
    for text, spath, qpath, xpath in NESTED:
        n_oracle += 1
        get = lambda o, path: _reduce(getattr, path.split("."), o)      # noqa: E731
        try:
            cs = cstruct()
            cs.load(text)
            cs.U()
            pv = cs.U(b"\x01\x02\x03")
            seen = [get(pv, spath).a, get(pv, qpath), get(pv, xpath)]
            setattr(get(pv, spath), "a", 9)
            seen += [get(pv, spath).a, get(pv, qpath), get(pv, xpath), pv.dumps()[:2].hex()]
            want = [1, 1, 0x0201, 9, 9, 0x0209, "0902"]
            seen = [int(x) if not isinstance(x, str) else x for x in seen]
        except Exception as e:  # noqa: BLE001
            seen, want = f"{type(e).__name__}: {e}", "the members as views of the bytes 01 02, then of 09 02 after inner.s.a = 9"
        if seen != want:
            failures += 1
            run.report("C11/nested-union", {"definition": text, "ops": [{"op": "default construction, parse of 010203, assignment to the innermost structure member", "observed": repr(seen)[:300], "expected": repr(want)}]})

    # ---- recorded findings: references into a union that outlive a rebuild, and structures inside an array member ----
    n_oracle += 2
    cs_h = cstruct()
    cs_h.load("struct s { uint32 a; uint32 b; }; union t { s s; uint64 x; }; struct e { uint16 a; uint16 b; }; union t2 { uint64 x; e arr[2]; };")
    u = cs_h.t(bytes(8))
    held = u.s
    held.a = 1
    held.b = 2
    if (u.s.a, u.s.b, u.x) != (1, 2, 0x200000001):
        failures += 1
        run.report("C11/held-reference-after-rebuild" if (u.s.a, u.s.b, u.x) == (1, 0, 1) else "C11/assignment",
                   {"definition": "struct s { uint32 a; uint32 b; }; union t { s s; uint64 x; };", "ops": [{"op": "h = u.s; h.a = 1; h.b = 2", "observed": repr((u.s.a, u.s.b, hex(u.x))), "expected": "(1, 2, 0x200000001)"}]})
    u2 = cs_h.t2(bytes(8))
    u2.arr[0].a = 0x1111
    if (u2.x, u2.dumps()[:2]) != (0x1111, b"\x11\x11"):
        failures += 1
        run.report("C11/array-member-not-proxied" if (u2.x, u2.dumps()) == (0, bytes(8)) else "C11/assignment",
                   {"definition": "struct e { uint16 a; uint16 b; }; union t2 { uint64 x; e arr[2]; };", "ops": [{"op": "u.arr[0].a = 0x1111", "observed": repr((hex(u2.x), u2.dumps().hex())), "expected": "x = 0x1111, dump 1111000000000000"}]})

    # assigning a value that compares EQUAL to the current one still writes its bytes (-0.0 over +0.0; a list edited in place and assigned back)
    n_oracle += 2
    cs_e = cstruct()
    cs_e.load("union tf { float f; uint32 i; }; union tw { uint16 words[2]; uint32 q; };")
    uf = cs_e.tf(bytes(4))
    uf.f = -0.0
    if (uf.i, uf.dumps()) != (0x80000000, bytes.fromhex("00000080")):
        failures += 1
        run.report("C11/assign-equal-value", {"definition": "union tf { float f; uint32 i; };", "ops": [{"op": "u = tf(00000000); u.f = -0.0", "observed": repr((hex(uf.i), uf.dumps().hex())), "expected": "i = 0x80000000, dump 00000080"}]})
    uw = cs_e.tw(bytes(4))
    w = uw.words
    w[1] = 0xBEEF
    uw.words = w
    if (uw.q, uw.dumps()) != (0xBEEF0000, bytes.fromhex("0000efbe")):
        failures += 1
        run.report("C11/assign-equal-value", {"definition": "union tw { uint16 words[2]; uint32 q; };", "ops": [{"op": "w = u.words; w[1] = 0xBEEF; u.words = w", "observed": repr((hex(uw.q), uw.dumps().hex())), "expected": "q = 0xbeef0000, dump 0000efbe"}]})

    # an assignment the member's type REJECTS (wrong element count, integer out of range) leaves the union as it was: members still views of its bytes
    for utext, attr, badval in (("union ur { uint8 r[4]; uint32 w; };", "r", [9]), ("union ur { uint8 r[4]; uint32 w; };", "w", 1 << 40),
                                ("union ur { uint16 h; struct { uint8 x; uint8 y; } s; };", "h", -70000)):
        n_oracle += 1
        cs_r = cstruct()
        cs_r.load(utext)
        ur = cs_r.ur(bytes([1, 2, 3, 4])[:len(cs_r.ur)])
        before = (repr(ur), ur.dumps())
        try:
            setattr(ur, attr, badval)
            outcome = "accepted"
        except Exception as e:  # noqa: BLE001
            outcome = type(e).__name__
        try:
            after = (repr(ur), ur.dumps())
        except Exception as e:  # noqa: BLE001
            after = f"dumps raises {type(e).__name__}"
        if outcome == "accepted" or after != before:
            failures += 1
            run.report("C11/rejected-assignment", {"definition": utext, "ops": [{"op": f"u.{attr} = {badval!r} ({outcome})", "observed": repr(after), "expected": repr(before) + " (and an error)"}]})

    # a union writes exactly its size wherever the stream stands: into a stream that already holds bytes, and as a member of a packed structure
    # when the union itself was loaded in aligned mode (mixed modes)
    import io as _io
    for utext, uname, payload in (("union ua { uint8 a; uint32 b; };", "ua", bytes([1, 2, 3, 4])), ("union ub { uint16 a; uint8 b[3]; };", "ub", bytes([9, 8, 7, 0])),
                                  ("union uc { uint64 q; struct { uint8 x; uint16 y; } s; };", "uc", bytes(range(1, 9)))):
        for compiled in (False, True):
            cs_w = cstruct()
            cs_w.load(utext, align=True, compiled=compiled)
            cs_w.load(f"struct rec {{ uint8 k; {uname} u; uint8 t; }}; struct recs {{ uint8 k; {uname} u[2]; uint16 t; }};", compiled=compiled)
            U = cs_w.resolve(uname)
            for k in range(0, 5):
                n_oracle += 1
                st = _io.BytesIO(b"\xaa" * k)
                st.seek(k)
                U(payload[:len(U)] + bytes(max(0, len(U) - len(payload)))).write(st)
                if len(st.getvalue()) - k != len(U):
                    failures += 1
                    run.report("C11/write-size", {"definition": utext, "load_kwargs": {"compiled": compiled, "align": True},
                               "ops": [{"op": f"write into a stream that already holds {k} bytes", "observed": len(st.getvalue()) - k, "expected": len(U)}]})
                    break
            for rname in ("rec", "recs"):
                n_oracle += 1
                R = cs_w.resolve(rname)
                raw = bytes((7 * i + 3) % 251 for i in range(len(R)))
                v = R(raw)
                out = v.dumps()
                back = R(out + bytes(8))
                if len(out) != len(R) or back.t != v.t or back.k != v.k:
                    failures += 1
                    run.report("C11/write-size", {"definition": utext + f" struct {rname} (packed) embedding it", "load_kwargs": {"compiled": compiled, "align": "union aligned, structure packed"},
                               "ops": [{"op": "parse, dump, parse", "observed": repr((len(out), back.k, back.t)), "expected": repr((len(R), v.k, v.t))}]})

    res, errs = run_shards("C11h", ["Definition checks : list bool := [\n" + ";\n".join("  " + x for x in hist_checks[i:i + 80]) + "\n]." for i in range(0, len(hist_checks), 80)], "Model.Union")
    for e in errs:
        run.violation({"kind": "correspondence", "theorem_or_correspondence": "corr_union", "error": e[:800]}, tag="corr-shard-error", no_input=True)
    bad = [hist_meta[k * 80 + i] for k, idx in enumerate(res) for i in idx]
    if bad and not failures:
        c, data, ops_py = min(bad, key=lambda b: len(b[2]))
        run.violation({"kind": "correspondence", "theorem_or_correspondence": "corr_union (Model.Union.union_run vs Union.__setattr__/_rebuild/_update)", **c.describe(),
                       "data": data.hex(), "history": ops_py, "count": len(bad)}, tag="corr-union-history", no_input=True)
    mism = run_items(run, items)
    report_unexplained(run, mism, explained, "corr_union (layout / parse / dump of unions)")
    F.obligation_fallback(run, ok, bool(failures or mism or bad))
    F.finish_cov(run, items, mism,
                 "unions of 2-4 members drawn from {scalars, int24, enum, 1-2 dimensional arrays, char array, nested structs (with and without padding), an anonymous struct, "
                 "a doubly nested struct} x {<,>} x {packed, aligned} x {compiled, interpreted}; parsed from random bytes, then 1-4 assignments (direct, through nested "
                 "structs, through forwarded anonymous fields); after every step: union bytes, every member vs re-parsing, dump; histories replayed in Model.Union",
                 {"oracle_only_checks": n_oracle, "assignment_histories": len(hist_checks), "history_mismatches": len(bad), "oracle_failures": failures})
    run.assumptions += ["fixed-size unions (dynamic unions cannot be modified or written: documented)",
                        "dump == buffer is only required where no member has padding (bits that are padding in every member may differ)"]


def replay(rep: dict) -> int:
    print("re-run ./check C11; the replay holds definition, configuration, data and the assignment history")
    return 1
