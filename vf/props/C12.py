"""C12 — enums and flags preserve every underlying value and number members like C.

Proof:          coq/Props/C12.v
Correspondence: member numbering of generated declarations (gaps, duplicates, expressions over earlier members, every base type)
                vs Model.Enum.number_members; parse/dump of enum scalars, arrays, null-terminated arrays and bit fields vs the model
Oracle:         all 256 values of 8-bit bases (boundary + random for wider): value preserved, dump writes it back; equality with ints,
                same-class and other-class members; two parses equal with equal hashes; independent C numbering rule
"""
from __future__ import annotations

import random

from .. import structs
from ..common import Run, clist, copt, cpair, cstr, cz, run_shards
from ..structcorr import Case, build_items, report_unexplained, run_items
from . import _family as F

BASES = {"uint8": (1, False), "int8": (1, True), "uint16": (2, False), "int16": (2, True), "uint32": (4, False), "int32": (4, True),
         "uint64": (8, False), "uint24": (3, False), "int24": (3, True)}


def gen_decl(rng: random.Random, kind: str, name: str):
    """Returns (members as [(name, expression text or None)], reference values by the C rule)."""
    n = rng.randrange(1, 7)
    members, values = [], {}
    nextval = 1 if kind == "flag" else 0
    for i in range(n):
        m = f"{name}_{chr(65 + i)}"
        form = rng.random()
        if form < 0.45 or (kind == "flag" and form < 0.7):
            expr, val = None, nextval
        elif form < 0.8 or not values:
            val = rng.choice([0, 1, 2, 3, 5, 8, 16, 0x30, 100, 127, 255]) if kind == "enum" else rng.choice([1, 2, 4, 8, 16, 32, 64, 3, 0x30])
            expr = rng.choice([str(val), hex(val)])
        else:
            a = rng.choice(list(values))
            op, k = rng.choice([("+", 1), ("|", 2), ("*", 2), ("+", 3)])
            if kind == "flag":
                op, k = rng.choice([("|", 1), ("|", 4), ("<<", 1), ("*", 2)])
            expr = f"{a} {op} {k}"
            val = {"+": values[a] + k, "|": values[a] | k, "*": values[a] * k, "<<": values[a] << k}[op]
        if kind == "flag" and val in values.values():
            # duplicate flag values are a recorded finding: exercised separately
            expr, val = None, nextval
            if val in values.values():
                continue
        members.append((m, expr))
        values[m] = val
        nextval = (1 << val.bit_length()) if kind == "flag" else val + 1
    return members, values


def fixed_decls():
    """Declarations every run covers whatever the seed: the numbering rule after each kind of explicit value (independent reference values
    worked out here by the C rule: enum previous + 1, flag next higher power of two)."""
    out = []
    for v in (3, 5, 6, 7, 12, 0x30, 0x41, 0x7F):        # a multi-bit flag value, then implicit members
        hi = 1 << v.bit_length()
        out.append(("flag", [("K_A", str(v)), ("K_B", None), ("K_C", None)], {"K_A": v, "K_B": hi, "K_C": hi * 2}))
    out.append(("flag", [("K_A", None), ("K_B", None), ("K_C", "K_A | K_B"), ("K_D", None)], {"K_A": 1, "K_B": 2, "K_C": 3, "K_D": 4}))
    out.append(("flag", [("K_A", "4"), ("K_B", "K_A | 1"), ("K_C", None)], {"K_A": 4, "K_B": 5, "K_C": 8}))
    out.append(("flag", [("K_A", "0x10"), ("K_B", None), ("K_C", "K_B << 1"), ("K_D", None)], {"K_A": 16, "K_B": 32, "K_C": 64, "K_D": 128}))
    for v in (0, 1, 5, 100, 126):                         # enum: previous + 1 after explicit values, expressions, duplicates and a step back
        out.append(("enum", [("K_A", str(v)), ("K_B", None), ("K_C", None)], {"K_A": v, "K_B": v + 1, "K_C": v + 2}))
    out.append(("enum", [("K_A", None), ("K_B", "K_A + 5"), ("K_C", None), ("K_D", "K_A"), ("K_E", None)], {"K_A": 0, "K_B": 5, "K_C": 6, "K_D": 0, "K_E": 1}))
    out.append(("enum", [("K_A", "7"), ("K_B", "K_A * 2"), ("K_C", None), ("K_D", "3"), ("K_E", None)], {"K_A": 7, "K_B": 14, "K_C": 15, "K_D": 3, "K_E": 4}))
    return out


def decl_text(kind, name, base, members) -> str:
    body = ", ".join(m if e is None else f"{m} = {e}" for m, e in members)
    return f"{kind} {name}" + (f" : {base}" if base else "") + f" {{ {body} }};"


def check(run: Run) -> None:
    rng = random.Random(f"C12-{run.seed}")
    thorough = run.tier == "thorough"
    ok = run.prove("Props/C12.v")
    failures, n_oracle = 0, 0
    items, explained = [], set()
    num_checks, num_meta = [], []

    fixed = fixed_decls()
    for i in range((400 if thorough else 90) + len(fixed)):
        kind = "flag" if i % 3 == 0 else "enum"
        if i < len(fixed):
            kind = fixed[i][0]
        base = rng.choice([b for b in BASES if not (kind == "flag" and BASES[b][1])] + [None])
        members, ref = gen_decl(rng, kind, "K")
        if i < len(fixed):
            members, ref = fixed[i][1], fixed[i][2]
            if base is not None and max(ref.values()) >= (1 << (BASES[base][0] * 8 - (1 if BASES[base][1] else 0))):
                base = "uint32"
        if not members:
            continue
        other, _ = gen_decl(rng, "enum", "O")
        text = decl_text(kind, "K", base, members) + "\n" + decl_text("enum", "O", base, other or [("O_A", None)]) + "\n"
        size, signed = BASES[base or "uint32"]
        st = (f"struct main {{ K a; K b[2]; K c[]; }};" if i % 2 else f"struct main {{ K x : 3; K y : {size * 8 - 3}; K a; K d[n]; }};".replace("K d[n]", "K d[1]"))
        for compiled in (False, True):
            c = Case(text + st, compiled=compiled, endian=rng.choice("<>"))
            try:
                cs = c.load()
            except Exception as e:  # noqa: BLE001
                failures += 1
                run.report("C12/declaration-rejected", {**c.describe(), "ops": [{"op": "load", "observed": f"{type(e).__name__}: {e}", "expected": "an enum type"}]})
                break
            K, O = cs.K, cs.O
            # ---- numbering ----
            got = {k: int(v.value) for k, v in K.__members__.items()}
            n_oracle += 1
            if got != ref:
                failures += 1
                run.report("C12/numbering", {**c.describe(), "ops": [{"op": "load", "observed": got, "expected": ref}]})
            if not compiled:
                decls = clist((cpair(cstr(m), "None" if e is None else f"(Some (toks_of {cstr(e)}))") for m, e in members), "(string * option (list string))")
                exp = clist((cpair(cstr(k), cz(v)) for k, v in got.items()), "(string * Z)")
                num_checks.append(f"option_eqb (list_eqb (fun a b => String.eqb (fst a) (fst b) && (snd a =? snd b))) (number_members {'true' if kind == 'flag' else 'false'} [] {decls}) (Some {exp})")
                num_meta.append((c, members, got))
            # ---- every value of the base (all 256 for 8-bit) ----
            lo, hi = (-(1 << (8 * size - 1)), (1 << (8 * size - 1)) - 1) if signed else (0, (1 << (8 * size)) - 1)
            if size == 1:
                vals = range(lo, hi + 1)
            else:
                cand = {lo, hi, 0, 1, -1, 2, lo + 1, hi - 1, *ref.values(), *[rng.randrange(lo, hi + 1) for _ in range(24)]}
                vals = sorted(v for v in cand if lo <= v <= hi)
            order = "little" if c.endian == "<" else "big"
            bad = None
            for v in vals:
                n_oracle += 1
                raw = int(v).to_bytes(size, order, signed=signed)
                try:
                    a, b = K(raw), K(raw)
                    if int(a.value) != v or int(a) != v:
                        bad = {"value": v, "observed": f"parsed value {int(a.value)}", "expected": v}
                    elif K.dumps(a) != raw or a.dumps() != raw:
                        bad = {"value": v, "observed": "dump " + K.dumps(a).hex(), "expected": raw.hex()}
                    elif not (a == v and a == b and hash(a) == hash(b)) or (a != b):
                        bad = {"value": v, "observed": f"a == v: {a == v}, a == b: {a == b}, hash equal: {hash(a) == hash(b)}", "expected": "all true"}
                    elif v in {int(m.value) for m in O.__members__.values()} and (a == O(v) or not (a != O(v))):
                        bad = {"value": v, "observed": "equal to a member of another enum with the same value", "expected": "never equal across classes"}
                    else:
                        # the same underlying value reached through the array readers is the same object as far as ==, hash and name go
                        arr = K[2](raw * 2)
                        S = cs.load("struct W%d { K s; K t[2]; };" % n_oracle, compiled=compiled).resolve("W%d" % n_oracle)(raw * 3)
                        for e, how in [(arr[0], "K[2]"), (arr[1], "K[2]"), (S.s, "struct member"), (S.t[0], "struct array member"), (S.t[1], "struct array member")]:
                            if not (e == a and hash(e) == hash(a) and e.name == a.name and int(e.value) == v):
                                bad = {"value": v, "observed": f"{how}: {e!r} (hash equal: {hash(e) == hash(a)}, name {e.name!r})", "expected": f"{a!r} as parsed as a scalar"}
                        for k, m in K.__members__.items():
                            if int(m.value) == v and not (m == v and m == a and a == m and m == K[k]):
                                bad = {"value": v, "observed": f"member {k} does not compare equal to its value / to the parsed value", "expected": "equal"}
                except Exception as e:  # noqa: BLE001
                    bad = {"value": v, "observed": f"{type(e).__name__}: {e}", "expected": "a value"}
                if bad:
                    break
            if not bad:
                # the other order, on a fresh cstruct object: the array readers meet a value BEFORE any scalar parse produced it
                member_vals = {int(m.value) for m in K.__members__.values()}
                odd = [v for v in vals if v not in member_vals][:10] + [v for v in vals if v in member_vals][:3]
                try:
                    cs3 = c.load()
                    K3 = cs3.resolve("K")
                    for v in odd:
                        n_oracle += 1
                        raw = int(v).to_bytes(size, order, signed=signed)
                        arr = K3[2](raw * 2)
                        nul = K3[None](raw + bytes(size)) if v != 0 else []
                        a = K3(raw)
                        for e, how in [(arr[0], "K[2] parsed first"), (arr[1], "K[2] parsed first")] + [(x, "K[] parsed first") for x in nul[:1]]:
                            if not (e == a and hash(e) == hash(a) and e.name == a.name and int(e.value) == v and {e: 1}.get(a) == 1):
                                bad = {"value": v, "observed": f"{how}: {e!r} (hash equal: {hash(e) == hash(a)}, name {e.name!r})", "expected": f"{a!r} as a later scalar parse gives"}
                        if bad:
                            break
                except Exception as e:  # noqa: BLE001
                    bad = {"value": "array before scalar", "observed": f"{type(e).__name__}: {e}", "expected": "values"}
            if bad:
                failures += 1
                sig = "C12/value"
                run.report(sig, {**c.describe(), "ops": [{"op": "parse/dump/compare enum value", **bad}]})
            # ---- in structures: scalars, arrays, null-terminated, bit fields ----
            ds = [F.random_data(rng, 24) for _ in range(3)]
            c.ops = [op for d in ds for op in (("parse", d, 0), ("dump", d, 0))]
            items += build_items(c)

    # ---- members that compare equal hash alike: aliases (two names for one value) and the member a parsed value names ----
    from dissect.cstruct import cstruct
    for kind in ("enum", "flag"):
        n_oracle += 1
        cs_h = cstruct()
        cs_h.load(f"{kind} H : uint8 {{ H_A = 1, H_B = 2, H_C = 2, H_D = 4, H_E = 1 }};")
        H = cs_h.H
        pairs = [(H.H_B, H.H_C), (H.H_A, H.H_E), (H(b"\x02"), H.H_B), (H(b"\x02"), H.H_C), (H(b"\x01"), H.H_A), (H(b"\x04"), H.H_D)]
        bad_pairs = [(repr(x), repr(y)) for x, y in pairs if not (x == y and hash(x) == hash(y) and {x: 1}.get(y) == 1)]
        if bad_pairs:
            failures += 1
            run.report("C12/alias-hash", {"definition": f"{kind} H : uint8 {{ H_A = 1, H_B = 2, H_C = 2, H_D = 4, H_E = 1 }};",
                       "ops": [{"op": "x == y, hash(x) == hash(y), {x: 1}[y]", "observed": repr(bad_pairs)[:400], "expected": "equal members hash alike and find each other in a dict"}]})

    # ---- recorded findings: replayed on every run ----
    for text, data, sig in [
        ("flag K : int16 { K_A = 1, K_B = 2 };", b"\xe7\xa5", "C12/flag-signed-negative"),
        ("flag K : uint8 { K_A = 1, K_B = 8, K_C = 4, K_D, K_E = K_D | 1 };", b"\x09", "C12/flag-duplicate-values"),
    ]:
        from dissect.cstruct import cstruct

        cs = cstruct()
        n_oracle += 1
        try:
            cs.load(text)
            v = cs.K(data)
            want = int.from_bytes(data, "little", signed="int16" in text)
            if int(v.value) != want or cs.K.dumps(v) != data:
                failures += 1
                run.report(sig, {"definition": text, "ops": [{"op": "parse+dump", "data": data.hex(), "observed": f"value {int(v.value)}, dump {cs.K.dumps(v).hex()}", "expected": f"value {want}, dump {data.hex()}"}]})
        except Exception as e:  # noqa: BLE001
            failures += 1
            run.report(sig, {"definition": text, "ops": [{"op": "parse", "data": data.hex(), "observed": f"{type(e).__name__}: {e}", "expected": "the underlying value"}]})

    res, errs = run_shards("C12", ["Definition checks : list bool := [\n" + ";\n".join("  " + x for x in num_checks[i:i + 200]) + "\n]." for i in range(0, len(num_checks), 200)] or ["Definition checks : list bool := []."],
                           "Model.Enum")
    for e in errs:
        run.violation({"kind": "correspondence", "theorem_or_correspondence": "corr_enum_numbering", "error": e[:800]}, tag="corr-shard-error", no_input=True)
    for k, idx in enumerate(res):
        for i in idx:
            c, members, got = num_meta[k * 200 + i]
            run.violation({"kind": "correspondence", "theorem_or_correspondence": "corr_enum_numbering (Model.Enum.number_members vs TokenParser._enum)",
                           **c.describe(), "members": members, "implementation": got}, tag=f"corr-numbering-{k}-{i}", no_input=True)
    mism = run_items(run, items)
    report_unexplained(run, mism, explained, "corr_enum (Model.Reader/Writer on enum scalars, arrays, null-terminated arrays, bit fields)")
    F.obligation_fallback(run, ok, bool(failures or mism))
    F.finish_cov(run, items, mism,
                 "generated enum/flag declarations (implicit values, gaps, duplicates for enums, hex literals, expressions over earlier members) over every base type "
                 "{u/int8,16,32, uint64, u/int24, default}; numbering vs an independent C rule and vs Model.Enum; ALL 256 values of 8-bit bases, boundary+members+random for wider: "
                 "value preserved, dumped back, equal to its int, to a second parse (and hash), never to another enum's member; enums as scalars, arrays, [] arrays and bit fields vs the model",
                 {"oracle_only_checks": n_oracle, "numbering_checks": len(num_checks), "oracle_failures": failures}, exhaustive=True)
    run.assumptions += ["Python's enum internals are abstracted as the map value -> name; hash collisions are outside the model"]


def replay(rep: dict) -> int:
    from dissect.cstruct import cstruct

    cs = cstruct()
    op = rep["ops"][0]
    try:
        cs.load(rep["definition"].split("struct main")[0])
        d = bytes.fromhex(op["data"]) if "data" in op else None
        if d is not None:
            v = cs.K(d)
            print("value", int(v.value), "dump", cs.K.dumps(v).hex(), "| expected", op.get("expected"))
            return 0 if cs.K.dumps(v) == d else 1
    except Exception as e:  # noqa: BLE001
        print("raises", type(e).__name__, e)
        return 1
    print("re-run ./check C12")
    return 1
