"""C13 — definition parsing ignores comments, spacing and the order of unrelated definitions; aliases resolve to the same type.

Proof:          coq/Props/C13.v (alias resolution over the regenerated table: every alias resolves within the bound to its base entry, unknown
                and cyclic references are resolve errors and never loop; the comment stripper keeps plain text, removes a block comment leaving its
                newlines)
Correspondence: TokenParser._remove_comments vs Model.Comments.strip_comments on generated texts (comments, quotes, unterminated constructs, CR/LF)
Oracle:         every definition rendered with random comments / blanks / newlines at every token boundary, and with unrelated definitions
                reordered, must give types with identical names, layout and parse results; alias identity; duplicate / unknown / cyclic aliases
PARTIAL:        the regex tokenizer (re.Scanner) is validated by the oracle, not modelled
"""
from __future__ import annotations

import random
import re

from .. import canon, structs
from ..common import Run, clist, cz, run_shards
from . import _family as F

WORD = re.compile(r"[A-Za-z0-9_]")


def tokens_of_definition(text: str) -> list[str]:
    """Split into tokens at which trivia may be inserted: words, punctuation (every '*', '[', ']' and ':' of a declarator is a token of its own; the
    text between [ and ] stays whole), #define lines (kept whole)."""
    out = []
    for line in text.split("\n"):
        if line.lstrip().startswith("#define"):
            out.append(("line", line.strip()))
            continue
        i = 0
        while i < len(line):
            c = line[i]
            if c.isspace():
                i += 1
            elif WORD.match(c):
                j = i
                while j < len(line) and WORD.match(line[j]):
                    j += 1
                out.append(("tok", line[i:j]))
                i = j
            elif c == "[":
                k = line.index("]", i)
                out.append(("tok", "["))
                if line[i + 1:k].strip():
                    out.append(("tok", line[i + 1:k].strip()))
                out.append(("tok", "]"))
                i = k + 1
            else:
                out.append(("tok", c))
                i += 1
    return out


def trivia(rng: random.Random, in_enum: bool) -> str:
    k = rng.random()
    if k < 0.35:
        return " "
    if k < 0.5:
        return "  \t "
    if k < 0.62 and not in_enum:
        return "\n"
    if k < 0.8:
        return rng.choice([" /* c; } { , */ ", " /* // not a line comment */ "])
    if k < 0.9 and not in_enum:
        return " /* multi\n line */ "
    if not in_enum:
        # (a line comment may contain what looks like the start of a block comment, a block comment what looks like a line comment)
        return rng.choice([" // line ; { comment\n", " // see /* below ; {\n", " // 'quoted\n"])
    return " "


def render(tokens, rng: random.Random, glue: bool = False, crlf: bool = False) -> str:
    """glue: a comment may be the ONLY separator between two words (in C a comment counts as one blank); crlf: lines end in CR LF."""
    out, prev, depth_enum = "", None, False
    pending_enum = False
    for kind, t in tokens:
        if kind == "line":
            out += "\n" + t + "\n"
            prev = None
            continue
        if t in ("enum", "flag"):
            pending_enum = True
        if t == "{" and pending_enum:
            depth_enum, pending_enum = True, False
        sep = trivia(rng, depth_enum) if prev is not None else rng.choice(["", " ", "\n", "/* lead */ "])
        # inside a declarator (around ':' of a bit field, '*' of a pointer, '[' ... ']' of an array) the definition stays on one line: blanks, tabs
        # and block comments only
        if t in (":", "*", "[", "]") or prev in (":", "*", "[", "]"):
            sep = rng.choice(["", "", " ", "  ", "\t", " /* d */ "]) if prev is not None else ""
            if prev == "[" or t == "]":
                sep = rng.choice(["", " "])
            if prev is not None and WORD.match(prev[-1]) and t == "*" and not sep:
                sep = " "
        if prev is not None and WORD.match(prev[-1]) and WORD.match(t[0]) and not sep.strip(" \t") and not sep:
            sep = " "
        if glue and prev is not None and WORD.match(prev[-1]) and WORD.match(t[0]) and rng.random() < 0.5:
            sep = rng.choice(["/**/", "/* c */", "/* a\n b */"]) if not depth_enum else "/**/"
        out += sep + t
        if t == "}" and depth_enum:
            depth_enum = False
        prev = t
    out += "\n"
    return out.replace("\n", "\r\n") if crlf else out


def type_signature(cs, names):
    from dissect.cstruct.types import BaseArray, Enum, Flag, Pointer, Structure

    def sig(t, depth=0):
        if issubclass(t, (Enum, Flag)):
            return ("enum", t.__name__, t.type.__name__, [(k, int(v.value)) for k, v in t.__members__.items()])
        if issubclass(t, Pointer):
            return ("ptr", t.type.__name__)
        if issubclass(t, BaseArray):
            n = t.num_entries
            return ("arr", sig(t.type, depth), n if isinstance(n, int) or n is None else n.expression.replace(" ", ""))
        if issubclass(t, Structure):
            if depth > 4:
                return ("struct", t.__name__)
            anon = t.__name__.startswith("__anonymous")
            return ("struct" if not hasattr(t, "_buf") else "union", None if anon else t.__name__, t.size, t.alignment,
                    [(None if f.name is None else f._name, sig(f.type, depth + 1), f.bits, f.offset) for f in t.__fields__])
        return ("prim", t.__name__, t.size)

    return {n: sig(cs.resolve(n)) for n in names}


def check(run: Run) -> None:
    from dissect.cstruct import cstruct
    from dissect.cstruct.exceptions import ResolveError
    from dissect.cstruct.parser import TokenParser

    rng = random.Random(f"C13-{run.seed}")
    thorough = run.tier == "thorough"
    ok = run.prove("Props/C13.v")
    failures, n_oracle = 0, 0

    # ---- 1. comment stripper: correspondence ----
    pieces = ["struct s { uint8 a; };", " ", "\n", "\r\n", "/* c */", "/* a\nb\n */", "// line", "// x /* y", "/*/", "/**/", "\"str // not\"", "'q /* x */'", "\"", "'", "/", "*", "*/", "//", "\r",
              "#define A \"x//y\"", "enum E { A, B };", "a/b", "/* unterminated", "x // tail\r\n", "'\n'", "\"a\nb\""]
    texts = []
    for _ in range(2500 if thorough else 500):
        texts.append("".join(rng.choice(pieces) for _ in range(rng.randrange(0, 9))))
    checks = []
    for t in texts:
        out = TokenParser._remove_comments(t)
        checks.append(f"list_eqb Z.eqb (strip_comments {clist((cz(ord(c)) for c in t), 'Z')}) {clist((cz(ord(c)) for c in out), 'Z')}")
    res, errs = run_shards("C13", ["Definition checks : list bool := [\n" + ";\n".join("  " + x for x in checks[i:i + 250]) + "\n]." for i in range(0, len(checks), 250)], "Model.Comments")
    for e in errs:
        run.violation({"kind": "correspondence", "theorem_or_correspondence": "corr_comments", "error": e[:800]}, tag="corr-shard-error", no_input=True)
    bad = [texts[k * 250 + i] for k, idx in enumerate(res) for i in idx]
    if bad:
        t = min(bad, key=len)
        run.violation({"kind": "correspondence", "theorem_or_correspondence": "corr_comments (Model.Comments.strip_comments vs TokenParser._remove_comments)", "text": t,
                       "implementation": TokenParser._remove_comments(t), "count": len(bad)}, tag="corr-comments", no_input=True)

    # ---- 2. trivia at token boundaries, reordering ----
    n_defs = 0
    # typedef forms (pointer, array, struct with several names) take part with fixed definitions: the generator has none
    TYPEDEFS = ["typedef uint32 *ptr_t; typedef uint8 arr_t[4]; struct main { ptr_t p; arr_t a; uint16 t; };",
                "typedef struct _s { uint8 a; uint16 b; } s_t, *sp_t; struct main { s_t s; sp_t q; uint8 t; };",
                "typedef char *str_t; typedef str_t strs_t[2]; struct main { uint8 n; strs_t v; str_t w; };",
                "enum e_t : uint8 { A = 1, B }; typedef e_t *ep_t; typedef e_t ea_t[2]; struct main { e_t e; ep_t p; ea_t x; };",      # (typedef enum {...} name; is not in the library's grammar)
                "typedef uint16 word_t; typedef word_t *wp_t; typedef union { word_t w; uint8 b[2]; } u_t; struct main { wp_t p; u_t u; };",
                "enum E1 : unsigned int { E1_A = 1, E1_B };\nflag F1 : unsigned long long { F1_A = 1 };\nstruct main { E1 e; F1 f; unsigned short us; uint8 **pp; uint16 grid[2][3]; uint8 bf : 3; };",
                "struct main { uint8 ***ppp; char *names[2]; uint32 m[2][2][1]; unsigned char uc[3]; };"]
    n_gen = 500 if thorough else 110
    for i in range(n_gen + 3 * len(TYPEDEFS)):
        if i < n_gen:
            g = structs.Gen(rng, depth=2, unions=(i % 3 == 0), max_fields=5)
            text = g.build()
        else:
            text = TYPEDEFS[(i - n_gen) % len(TYPEDEFS)]
        n_defs += 1
        try:
            base = structs.load(text, compiled=False)
        except Exception as e:  # noqa: BLE001
            if i >= n_gen:
                # the fixed typedef definitions are plain C: not loading them is a failure, not a reason to skip
                failures += 1
                run.report("C13/typedef-rejected", {"definition": text, "ops": [{"op": "load", "observed": f"{type(e).__name__}: {e}", "expected": "the types"}]})
            continue
        names = [n for n in base.typedefs if n not in cstruct().typedefs]
        ref = type_signature(base, names)
        data = F.random_data(rng, 48)
        refparse = structs.parse(base, "main", data, 0)
        refkey = ("ok", structs.py_value(refparse[1], base.resolve("main")), refparse[2]) if refparse[0] == "ok" else ("err", type(refparse[1]).__name__)
        toks = tokens_of_definition(text)
        for rep in range(5):
            n_oracle += 1
            # renderings 4 and 5: a comment as the only separator between two words; CR LF line ends (line comments end in front of the CR)
            variant = render(toks, rng, glue=(rep == 3), crlf=(rep == 4))
            prob = None
            try:
                cs = structs.load(variant, compiled=False)
                got = type_signature(cs, names)
                if got != ref or list(cs.consts.items()) != list(base.consts.items()):
                    diff = [n for n in names if got.get(n) != ref[n]]
                    prob = {"observed": repr(got.get(diff[0]) if diff else dict(cs.consts))[:300], "expected": repr(ref[diff[0]] if diff else dict(base.consts))[:300], "type": diff[0] if diff else "constants"}
                else:
                    r = structs.parse(cs, "main", data, 0)
                    k = ("ok", structs.py_value(r[1], cs.resolve("main")), r[2]) if r[0] == "ok" else ("err", type(r[1]).__name__)
                    if k != refkey:
                        prob = {"observed": repr(k)[:300], "expected": repr(refkey)[:300], "type": "parse result"}
            except structs.HasNaN:
                continue
            except Exception as e:  # noqa: BLE001
                prob = {"observed": f"{type(e).__name__}: {e}", "expected": "the same types as the plain rendering"}
            if prob:
                failures += 1
                in_enum = bool(re.search(r"(enum|flag)[^;]*\{[^}]*\n[^}]*\}", variant))
                run.report("C13/trivia" + ("-in-enum-body" if in_enum and prob.get("type", "").startswith("E") else ""),
                           {"definition": text, "ops": [{"op": "load with comments/whitespace inserted at token boundaries", "variant": variant, **prob}]})
                break
        # reorder unrelated top-level definitions (those that do not mention each other)
        stmts = [s for s in re.split(r"(?<=;)\n", text.strip()) if s.strip()]
        if len(stmts) >= 3:
            n_oracle += 1
            declared = [re.match(r"(?:struct|union|enum|flag)\s+(\w+)", s) for s in stmts]
            i1, i2 = sorted(rng.sample(range(len(stmts) - 1), 2))
            n1, n2 = declared[i1], declared[i2]
            if n1 and n2 and not re.search(rf"\b{n1.group(1)}(_\w+)?\b", " ".join(stmts[i1 + 1:i2 + 1])) and not re.search(rf"\b{n2.group(1)}(_\w+)?\b", stmts[i1]) \
                    and "#define" not in stmts[i1] + stmts[i2]:
                sw = list(stmts)
                sw[i1:i2 + 1] = stmts[i1 + 1:i2 + 1] + [stmts[i1]]
                try:
                    cs = structs.load("\n".join(sw), compiled=False)

                    def norm(sigs):
                        return re.sub(r"__anonymous_\d+__", "__anonymous__", repr(sigs))

                    if norm(type_signature(cs, names)) != norm(ref):
                        failures += 1
                        run.report("C13/reorder", {"definition": text, "ops": [{"op": "reordered unrelated definitions", "variant": "\n".join(sw), "observed": "different types", "expected": "identical types"}]})
                except Exception as e:  # noqa: BLE001
                    failures += 1
                    run.report("C13/reorder", {"definition": text, "ops": [{"op": "reordered unrelated definitions", "variant": "\n".join(sw), "observed": f"{type(e).__name__}: {e}", "expected": "identical types"}]})

    # ---- 2a. constants that do not refer to each other, in every order (a string constant is its text, whatever other constants are called) ----
    import itertools as _it
    CONST_SETS = [['#define B 5', '#define A "B"', '#define C 7'], ['#define LEN 4', '#define NAME "LEN"', '#define GREETING "hello world"'],
                  ['#define X 1', "#define Y 'X'", '#define Z (2 + 3)'], ['#define P 3', '#define Q "P + 1"']]
    for cset in CONST_SETS:
        seen = {}
        for perm in _it.permutations(cset):
            n_oracle += 1
            cs = cstruct()
            try:
                cs.load("\n".join(perm) + "\n")
                seen[perm] = {k: v for k, v in cs.consts.items()}
            except Exception as e:  # noqa: BLE001
                seen[perm] = f"{type(e).__name__}: {e}"
        vals = list(seen.values())
        if any(v != vals[0] for v in vals):
            failures += 1
            other = next(p_ for p_, v in seen.items() if v != vals[0])
            run.report("C13/constant-order", {"definition": "\n".join(cset), "ops": [{"op": "reordered unrelated #define lines", "variant": "\n".join(other),
                       "observed": repr(seen[other])[:300], "expected": repr(vals[0])[:300]}]})

    # ---- 2b. sequences of load() calls with different options on one cstruct object ----
    for i in range(60 if thorough else 16):
        t1 = f"struct first{i} {{ uint8 a; uint32 b; uint16 c; }};"
        t2 = f"struct second{i} {{ uint8 x; uint64 y; uint8 z; struct {{ uint8 p; uint32 q; }} n; }};"
        k1 = {"align": rng.random() < 0.5, "compiled": rng.random() < 0.5}
        k2 = {"align": not k1["align"], "compiled": rng.random() < 0.5}
        n_oracle += 1
        cs = cstruct()
        cs.load(t1, **k1)
        cs.load(t2, **k2)
        alone = cstruct()
        alone.load(t2, **k2)
        sa, sb = type_signature(cs, [f"second{i}"]), type_signature(alone, [f"second{i}"])
        ca, cb = cs.resolve(f"second{i}").__compiled__, alone.resolve(f"second{i}").__compiled__
        if sa != sb or ca != cb:
            failures += 1
            run.report("C13/load-sequence", {"definition": t1 + " ; " + t2, "ops": [{"op": f"load(first, {k1}); load(second, {k2})", "observed": repr((sa, ca))[:300],
                       "expected": repr((sb, cb))[:300] + " (what loading `second` alone with these options gives)"}]})

    # ---- 2b. fixed placements of a line break / block comment at the token boundaries of typedef declarators (anonymous structure
    #          named by its first declarator, which is a pointer or an array) ----
    for plain, names_ in (("typedef struct { uint8 a; uint16 b; } * ap_t, a_t; struct main { ap_t p; a_t s; uint8 t; };", ["ap_t", "a_t", "main"]),
                          ("typedef struct { uint8 a; } aa_t [2], a_t; struct main { aa_t v; a_t s; };", ["aa_t", "a_t", "main"]),
                          ("typedef union { uint16 w; uint8 b[2]; } * up_t, ** upp_t, u_t; struct main { up_t p; upp_t q; u_t u; };", ["up_t", "upp_t", "u_t", "main"])):
        try:
            ref = type_signature(structs.load(plain, compiled=False), names_)
        except Exception as e:  # noqa: BLE001
            failures += 1
            run.report("C13/typedef-rejected", {"definition": plain, "ops": [{"op": "load", "observed": f"{type(e).__name__}: {e}", "expected": "the types"}]})
            continue
        for sep in ("\n", "\r\n", "\n\t ", " /* a\n b */ ", "\n// c\n", "\f", "\v"):
            for variant in (plain.replace("* ", "*" + sep).replace("** ", "**" + sep), plain.replace(" [", sep + "["), plain.replace("} ", "}" + sep), plain.replace(", ", "," + sep)):
                if variant == plain:
                    continue
                n_oracle += 1
                try:
                    got = type_signature(structs.load(variant, compiled=False), names_)
                    prob = None if got == ref else {"observed": repr([got[n] for n in names_ if got[n] != ref[n]][0])[:300], "expected": repr([ref[n] for n in names_ if got[n] != ref[n]][0])[:300]}
                except Exception as e:  # noqa: BLE001
                    prob = {"observed": f"{type(e).__name__}: {e}", "expected": "the same types as the plain rendering"}
                if prob:
                    failures += 1
                    run.report("C13/trivia-in-typedef-declarator", {"definition": plain, "ops": [{"op": "load with a line break / comment at a token boundary of the declarators", "variant": variant, **prob}]})
                    break

    # ---- 3. aliases ----
    cs = cstruct()
    cs.load("typedef uint32 T1; typedef T1 T2; typedef struct _s { uint8 a; } s_t, s2_t; typedef struct { uint8 b; } anon_t, anon2_t;")
    alias_probs = []
    n_oracle += 6
    if not (cs.T1 is cs.uint32 and cs.T2 is cs.uint32 and cs.DWORD is cs.uint32 and cs.resolve("unsigned int") is cs.uint32):
        alias_probs.append("typedef chain / built-in synonyms do not resolve to the very same type")
    if not (cs.s_t is cs._s and cs.s2_t is cs._s and cs.anon_t is cs.anon2_t):
        alias_probs.append("several names after a struct typedef are different types")
    try:
        cs.add_type("T1", cs.uint32)
        cs.add_type("T1", "uint32")
        cs.load("typedef uint32 T1;")
    except Exception as e:  # noqa: BLE001
        alias_probs.append(f"re-declaring an alias for the same target rejected: {e!r}")
    for bad_decl in ("typedef uint16 T1;",):
        try:
            cs.load(bad_decl)
            alias_probs.append("re-declaring an alias for a different target accepted")
        except ValueError:
            pass
    # built-in synonyms and aliases declared by name are entries that refer to another entry: re-declaring them is accepted for the same target only
    cs.add_type("by_name", "uint16")
    for nm, same, other in [("DWORD", "uint32", "uint64"), ("long", "int32", "int16"), ("uint32_t", "uint32", "uint8"), ("ULONG", "uint32", "int32"),
                            ("WCHAR", "wchar", "char"), ("by_name", "uint16", "uint32"), ("T2", "uint32", "uint16")]:
        n_oracle += 3
        for first in (other, same):          # the different target first: the entry is still the reference it was declared as
            c3 = cstruct()
            c3.load("typedef uint32 T1; typedef T1 T2;")
            c3.add_type("by_name", "uint16")
            for target in ((first,) if first == other else (same, other)):
                try:
                    c3.load(f"typedef {target} {nm};")
                    if target == other:
                        alias_probs.append(f"re-declaring {nm} for a different target ({other}) accepted")
                except ValueError as e:
                    if target == same:
                        alias_probs.append(f"re-declaring {nm} for the same target rejected: {e!r}")
            if c3.resolve(nm) is not c3.resolve(same):
                alias_probs.append(f"{nm} no longer resolves to {same}")
    # several names after a struct typedef, pointer and array declarators among them, in any order: every name is bound to the structure itself
    for text in ("typedef struct _s { uint8 a; uint16 b; } s_t, *sp_t, sa_t[3];", "typedef struct _s { uint8 a; uint16 b; } *sp_t, s_t, sa_t[3];",
                 "typedef struct { uint8 a; uint16 b; } sa_t[3], s_t, *sp_t;", "typedef struct { uint8 a; uint16 b; } *sp_t, sa_t[3], s_t;"):
        n_oracle += 1
        try:
            c8 = cstruct()
            c8.load(text)
            S = c8.resolve("s_t")
            facts = (S.__name__.isidentifier(), [f._name for f in S.__fields__], c8.resolve("sp_t").type is S, c8.resolve("sa_t").type is S, c8.resolve("sa_t").num_entries,
                     c8.resolve("_s") is S if "_s" in text else True)
            if facts != (True, ["a", "b"], True, True, 3, True):
                alias_probs.append(f"{text}: names are not bound to the one structure: {facts!r}")
        except Exception as e:  # noqa: BLE001
            alias_probs.append(f"{text}: {type(e).__name__}: {e}")
    # histories: lookups made before a definition failed / before a target was replaced must not be remembered
    n_oracle += 4
    for compiled in (False, True):
        c6 = cstruct()
        try:
            c6.load("struct node { uint8 a; node *next; missing_t x; };", compiled=compiled)
            alias_probs.append("a definition with an unknown member type loaded")
        except Exception:  # noqa: BLE001
            pass
        for later in ("struct list { node *head; };", "typedef node node_t;", "struct uses { uint8 k; node n; };"):
            try:
                c6.load(later, compiled=compiled)
                alias_probs.append(f"after a failed definition of node, '{later}' binds to something instead of raising ResolveError")
            except ResolveError:
                pass
            except Exception as e:  # noqa: BLE001
                alias_probs.append(f"after a failed definition of node, '{later}' raises {e!r} instead of ResolveError")
    c7 = cstruct()
    c7.load("typedef uint32 T1; typedef T1 T2;")
    # (built-in synonyms are entries that name another entry; a typedef made from a definition text is bound to the type it named when it was loaded)
    before = (c7.resolve("DWORD"), c7.resolve("ULONG"), c7.resolve("uint32_t"))
    c7.add_type("uint32", c7.uint16, replace=True)
    after = (c7.resolve("DWORD"), c7.resolve("ULONG"), c7.resolve("uint32_t"), c7.resolve("uint32"))
    if not all(t is c7.uint16 for t in after) or not all(t is not c7.uint16 for t in before):
        alias_probs.append("aliases of a replaced type do not follow their target: " + repr([t.__name__ for t in after]))
    # array and pointer targets: every declaration builds a new class, the SAME declaration is still the same target (a header loaded twice)
    for first, same, others in [("typedef uint32 arr_t[4];", "typedef uint32 arr_t[4];", ["typedef uint32 arr_t[5];", "typedef int32 arr_t[4];", "typedef uint32 arr_t;", "typedef uint32 *arr_t;"]),
                                ("typedef uint32 *ptr_t;", "typedef uint32 *ptr_t;", ["typedef uint16 *ptr_t;", "typedef uint32 ptr_t[1];"]),
                                ("typedef uint8 m_t[2][3];", "typedef uint8 m_t[2][3];", ["typedef uint8 m_t[3][2];", "typedef uint8 m_t[6];"]),
                                ("typedef char str_t[];", "typedef char str_t[];", ["typedef char str_t[1];", "typedef wchar str_t[];"]),
                                ("typedef uint8 a4_t[4]; typedef a4_t *pa_t;", "typedef a4_t *pa_t;", ["typedef uint8 *pa_t;"])]:
        n_oracle += 1 + len(others)
        for one_load in (True, False):
            c4 = cstruct()
            try:
                if one_load:
                    c4.load(first + " " + same)
                else:
                    c4.load(first)
                    c4.load(same)
            except Exception as e:  # noqa: BLE001
                alias_probs.append(f"re-declaring an alias for the same target rejected ({first} {same}): {e!r}")
                continue
            for other in others:
                try:
                    c4.load(other)
                    alias_probs.append(f"re-declaring an alias for a different target accepted: {first} then {other}")
                except ValueError:
                    pass
    try:
        cs.resolve("no_such_type")
        alias_probs.append("unknown alias resolved")
    except ResolveError:
        pass
    c2 = cstruct()
    c2.add_type("loop_a", "loop_b")
    c2.add_type("loop_b", "loop_a", replace=True)
    try:
        with structs.time_limit(3.0):
            c2.resolve("loop_a")
        alias_probs.append("cyclic alias resolved")
    except ResolveError:
        pass
    except structs.Hang:
        alias_probs.append("cyclic alias loops forever")
    try:
        cstruct().load("struct x { nosuch a; };")
        alias_probs.append("field of unknown type accepted")
    except ResolveError:
        pass
    if alias_probs:
        failures += 1
        run.report("C13/alias", {"definition": "typedef chains", "ops": [{"op": "alias resolution", "observed": alias_probs, "expected": "same type / same-target only / ResolveError"}]})

    # ---- recorded finding: a newline between the tokens of an enum member changes the members silently ----
    n_oracle += 1
    a, b = cstruct(), cstruct()
    a.load("enum E : uint8 { A, B = A + 4, C };")
    b.load("enum E : uint8 { A,\n B\n =\n A\n +\n 4, C };")
    if {k: int(v.value) for k, v in a.E.__members__.items()} != {k: int(v.value) for k, v in b.E.__members__.items()}:
        failures += 1
        run.report("C13/enum-body-newline", {"definition": "enum E : uint8 { A,\\n B\\n =\\n A\\n +\\n 4, C };", "ops": [{"op": "load", "observed": {k: int(v.value) for k, v in b.E.__members__.items()},
                   "expected": {k: int(v.value) for k, v in a.E.__members__.items()}}]})

    # ---- a member named `flag` (an identifier in C, a keyword of the definition language only in front of a flag definition):
    #      blanks around the ':' of a bit field must not matter (struct, union, enum, typedef are C keywords and no member names) ----
    for kw in ("flag", "flags", "Flag"):
        for tail in ("", "\nstruct t { uint8 x; };"):
            n_oracle += 1
            tight = f"struct s {{ uint8 {kw}:1; uint8 rest:7; }};" + tail
            spaced = f"struct s {{ uint8 {kw} : 1; uint8 rest : 7; }};" + tail
            outs = []
            for text in (tight, spaced):
                try:
                    c5 = cstruct()
                    c5.load(text)
                    outs.append([(f._name, f.type.__name__, f.bits) for f in c5.s.__fields__])
                except Exception as e:  # noqa: BLE001
                    outs.append(f"{type(e).__name__}: {e}")
            if outs[0] != outs[1]:
                failures += 1
                # recorded finding for `flag` / `enum` followed by a later "{ ... };": the ENUM token pattern is tried at every position
                sig = "C13/keyword-named-bit-field" if kw == "flag" and tail and isinstance(outs[1], str) and outs[1].startswith("ParserError") and isinstance(outs[0], list) else "C13/trivia"
                run.report(sig, {"definition": spaced, "ops": [{"op": "load", "observed": outs[1], "expected": outs[0]}]})

    F.obligation_fallback(run, ok, bool(failures or bad))
    cov = run.coverage
    cov["evaluations"] = len(texts) + n_oracle
    cov["distinct_nontrivial"] = len(set(texts)) + n_defs
    cov["traces_validated_against_impl"] = len(texts) - len(bad)
    cov["rule"] = ("comment stripper: texts assembled from 26 pieces (definitions, block/line comments, quotes, unterminated comments and quotes, CR/LF, '/*/') compared with "
                   "Model.Comments in coqc; parsing: random definitions re-rendered 3x with blanks, tabs, newlines, block comments containing ; } { , and line comments at every token "
                   "boundary (array brackets, bit widths, #define lines kept whole; no newlines inside enum bodies), unrelated definitions rotated; alias identity and errors")
    cov["distribution"] = {"comment_texts": len(texts), "comment_mismatches": len(bad), "definitions": n_defs, "oracle_checks": n_oracle, "oracle_failures": failures}
    cov["samples"] = [{"text": texts[3]}, {"text": texts[7]}]
    run.assumptions += ["the regex tokenizer (re.Scanner and the NAME/ENUM/DEFS patterns) is validated, not modelled: partial", "ASCII definition texts"]


def replay(rep: dict) -> int:
    op = rep["ops"][0]
    if "variant" in op:
        try:
            a = structs.load(rep["definition"], compiled=False)
            b = structs.load(op["variant"], compiled=False)
            from dissect.cstruct import cstruct
            names = [n for n in a.typedefs if n not in cstruct().typedefs]
            same = type_signature(a, names) == type_signature(b, names)
            print("same types:", same)
            return 0 if same else 1
        except Exception as e:  # noqa: BLE001
            print("raises", type(e).__name__, e)
            return 1
    print("re-run ./check C13")
    return 1
