"""C14 — no hidden shared state: instances, defaults and cstruct objects are independent; parsing is pure.

Proof:          coq/Props/C14.v (heap model: instances created by the API never share mutable locations; by induction over operation lists)
Tie:            regenerated facts `defaults_fresh` / `array_default_elements_fresh` (probed on the live library) + the write-site scan
Oracle:         random histories of construct / mutate (fields, array elements, nested structures) / parse / dump / load / set-endian / add_type over
                several cstruct objects and instances; after every operation every live instance is compared with an independent shadow copy,
                and every parse with a parse on a fresh cstruct
"""
from __future__ import annotations

import copy
import random

from .. import structs
from ..common import Run
from . import _family as F

# the same shapes with different enum members / nested layouts: what one cstruct object defines must not leak into another
VARIANTS = [
    ["enum K : uint8 { K_A = 1, K_B = 2 }; struct in { K e; uint8 z; }; struct main { K k; in n; uint16 arr[2]; K ks[2]; };",
     "enum K : uint8 { K_X = 1, K_Y = 3, K_Z = 2 }; struct in { K e; uint8 z; }; struct main { K k; in n; uint16 arr[2]; K ks[2]; };",
     "enum K : uint8 { K_P = 2 }; struct in { K e; uint8 z; }; struct main { K k; in n; uint16 arr[2]; K ks[2]; };"],
    ["struct in { uint8 x; uint8 y; }; union un { uint8 a; uint32 b; uint16 c[2]; }; struct main { in n; un u; uint8 t; };",
     "struct in { uint16 x; }; union un { uint8 a; uint32 b; uint16 c[2]; }; struct main { in n; un u; uint8 t; };"],
]
DEFS = [
    "struct in { uint8 x; uint16 y; }; struct main { uint8 a; uint16 arr[3]; in n; in ns[2]; char c[4]; uint8 m[2][2]; };",
    "struct in { uint32 q; }; struct main { in first; uint8 b : 3; uint8 d : 5; in many[3]; uint64 arr[2]; wchar w[2]; };",
    "enum E : uint8 { A = 1, B }; struct in { E e; uint8 z[2]; }; struct main { E es[2]; in n; uint8 k; uint8 v[k]; };",
    "struct in { uint8 x; }; union un { uint32 a; uint8 b[4]; in s; }; struct main { un u; in t; uint16 arr[2]; };",
    "struct main { uint8 a; struct { uint8 x; uint16 y[2]; }; struct { uint8 p; } named; uint8 z[2]; };",      # an anonymous nested structure (forwarded members)
    "struct main { uint8 a; uint8 b; };",                                                                      # scalars only: extended by add_field during the history
]


def snapshot(v, T):
    try:
        return structs.py_value(v, T)
    except structs.HasNaN:
        return None


def mutate(rng, v, T, depth=0):
    """Mutate something reachable from instance v in place; returns a description."""
    from dissect.cstruct.types import BaseArray, Structure, Union

    fs = [f for f in T.__fields__ if not f.bits]
    f = rng.choice(fs)
    cur = getattr(v, f._name)
    t = f.type
    if issubclass(t, Union):
        return None
    if issubclass(t, Structure) and depth < 2 and rng.random() < 0.8:
        d = mutate(rng, cur, t, depth + 1)
        return None if d is None else f"{f._name}.{d}"
    if issubclass(t, BaseArray) and isinstance(cur, list) and len(cur) and rng.random() < 0.8:
        i = rng.randrange(len(cur))
        et = t.type
        if issubclass(et, Structure) and not issubclass(et, Union):
            d = mutate(rng, cur[i], et, depth + 1)
            return None if d is None else f"{f._name}[{i}].{d}"
        if issubclass(et, BaseArray):
            j = rng.randrange(len(cur[i])) if len(cur[i]) else None
            if j is None:
                return None
            cur[i][j] = structs.gen_py(et.type, rng)
            return f"{f._name}[{i}][{j}] = ..."
        cur[i] = structs.gen_py(et, rng)
        return f"{f._name}[{i}] = ..."
    try:
        setattr(v, f._name, structs.gen_py(t, rng))
    except NotImplementedError:
        return None
    return f"{f._name} = ..."


# look-alike definitions for two cstruct objects: the same structure text and type names, other enum members / typedef targets / configuration;
# what each object has to give is worked out here from the text, not taken from another cstruct object
LOOKALIKES = [
    (("enum K : uint8 { K_A = 1, K_B = 2 }; struct main { K k; uint8 f; uint16 s; };", {"endian": "<"}, {"k": "K_B", "f": 7, "s": 0x3412}),
     ("enum K : uint8 { K_X = 1, K_Y = 2, K_Z = 3 }; struct main { K k; uint8 f; uint16 s; };", {"endian": ">"}, {"k": "K_Y", "f": 7, "s": 0x1234})),
    (("typedef uint16 T; struct main { T a; uint8 b; uint8 c; };", {"endian": "<"}, {"a": 0x0702, "b": 0x12, "c": 0x34}),
     ("typedef int16 T; struct main { T a; uint8 b; uint8 c; };", {"endian": ">"}, {"a": 0x0207, "b": 0x12, "c": 0x34})),
    (("typedef uint16 T; struct main { T a; T b; };", {"endian": "<"}, {"a": 0xFFFE, "b": 0x8001}),
     ("typedef int16 T; struct main { T a; T b; };", {"endian": "<"}, {"a": -2, "b": -32767})),
    (("flag G : uint8 { G_R = 1, G_W = 2 }; struct main { G g; char c[3]; };", {"endian": "<"}, {"g": "G_W", "c": b"\x07\x12\x34"}),
     ("flag G : uint8 { G_X = 1, G_Y = 2 }; struct main { G g; char c[3]; };", {"endian": "<"}, {"g": "G_Y", "c": b"\x07\x12\x34"})),
    (("struct main { uint8 *p; uint8 t; };", {"endian": "<", "pointer": "uint16"}, {"p": 0x0702, "t": 0x12}),
     ("struct main { uint8 *p; uint8 t; };", {"endian": ">", "pointer": "uint16"}, {"p": 0x0207, "t": 0x12})),
]
LOOKALIKE_DATA = {0: bytes([2, 7, 0x12, 0x34]), 1: bytes([2, 7, 0x12, 0x34]), 2: bytes([0xFE, 0xFF, 0x01, 0x80]), 3: bytes([2, 7, 0x12, 0x34]), 4: bytes([2, 7, 0x12, 0x34])}


def lookalike_problems() -> list[dict]:
    from dissect.cstruct import cstruct

    probs = []
    for gi, pair in enumerate(LOOKALIKES):
        data = LOOKALIKE_DATA[gi]
        for order in ((0, 1), (1, 0)):
            for compiled in (False, True):
                objs = []
                for idx in order:
                    text, kw, want = pair[idx]
                    cs = cstruct(**kw)
                    cs.load(text, compiled=compiled)
                    objs.append((cs, text, kw, want))
                    cs.main(data)                                        # parse once as soon as the object exists (warm caches)
                for cs, text, kw, want in objs + objs[::-1]:
                    v = cs.main(data)
                    for name, w in want.items():
                        got = getattr(v, name)
                        if isinstance(w, str):
                            cls = cs.resolve(text.split()[1])
                            bad = getattr(got, "name", None) != w or type(got) is not cls
                            shown = f"{type(got).__name__}.{getattr(got, 'name', got)} (class of this cstruct object: {type(got) is cls})"
                        else:
                            bad = (bytes(got) if isinstance(w, bytes) else int(got)) != w
                            shown = repr(got)
                        if bad:
                            probs.append({"what": "parse result of one cstruct object depends on a look-alike definition of another", "definitions": [o[1] for o in objs],
                                          "configurations": [o[2] for o in objs], "compiled": compiled, "data": data.hex(), "object": text, "member": name,
                                          "observed": shown, "expected": repr(w)})
    return probs


def check(run: Run) -> None:
    from dissect.cstruct import cstruct

    rng = random.Random(f"C14-{run.seed}")
    thorough = run.tier == "thorough"
    ok = run.prove("Props/C14.v")
    failures, n_ops, n_hist = 0, 0, 0
    for h in range(400 if thorough else 80):
        n_hist += 1
        ncs = rng.randrange(1, 4)
        if h % 3 == 0:
            fam = rng.choice(VARIANTS)
            texts = [rng.choice(fam) for _ in range(ncs)]
        else:
            texts = [rng.choice(DEFS)] * ncs
        text = " ||| ".join(dict.fromkeys(texts))
        objs = []
        for t in texts:
            cs = cstruct(endian=rng.choice("<>"))
            cs.load(t, compiled=rng.random() < 0.6, align=rng.random() < 0.3)
            objs.append(cs)

        def class_signature(cs):
            from dissect.cstruct.types import Enum, Flag, Structure
            out = {}
            for name, t in cs.typedefs.items():
                if isinstance(t, type) and issubclass(t, Structure):
                    out[name] = ([(f._name, f.type.__name__, f.bits, f.offset) for f in t.__fields__], t.size, t.alignment, list(t.fields), list(t.lookup))
                elif isinstance(t, type) and issubclass(t, (Enum, Flag)):
                    out[name] = [(k, int(m.value)) for k, m in t.__members__.items()]
            return out

        sigs = [class_signature(cs) for cs in objs]
        exts = [[] for _ in objs]     # add_field extensions applied to main of each cstruct object: (field name, type expression)

        def fresh_ref(ci, cs, T):
            ref = cstruct(endian=cs.endian)
            ref.load(texts[ci], compiled=False, align=T.__align__)
            for fname, (base_, cnt_) in exts[ci]:
                t_ = ref.resolve(base_)
                ref.resolve("main").add_field(fname, t_ if cnt_ is None else t_[cnt_])
            return ref

        live = []     # (cs index, instance, shadow snapshot)
        log = []
        problem = None
        for step in range(rng.randrange(4, 14)):
            n_ops += 1
            ci = rng.randrange(ncs)
            cs = objs[ci]
            T = cs.resolve("main")
            k = rng.random()
            try:
                if k < 0.25 or not live:
                    v = T()
                    log.append(f"cs{ci}: v{len(live)} = main()")
                    # a fresh default construction equals the default of a brand new cstruct object
                    ref = fresh_ref(ci, cs, T)
                    want = snapshot(ref.resolve("main")(), ref.resolve("main"))
                    if snapshot(v, T) != want:
                        problem = {"what": "default construction depends on earlier operations", "observed": repr(snapshot(v, T))[:300], "expected": repr(want)[:300]}
                    live.append((ci, v, snapshot(v, T)))
                elif k < 0.4:
                    data = F.random_data(rng, 64) + bytes(300)
                    v = T(data)
                    log.append(f"cs{ci}: v{len(live)} = main({data.hex()[:24]}...)")
                    ref = fresh_ref(ci, cs, T)
                    want = snapshot(ref.resolve("main")(data), ref.resolve("main"))
                    # enum-typed fields must be members of THIS cstruct object's enum
                    names_now = repr(v)
                    if repr(ref.resolve("main")(data)) != names_now:
                        problem = {"what": "parse result (repr, i.e. enum member names) depends on another cstruct object", "observed": names_now[:300], "expected": repr(ref.resolve("main")(data))[:300]}
                    if snapshot(v, T) != want:
                        problem = {"what": "parse result depends on earlier operations", "observed": repr(snapshot(v, T))[:300], "expected": repr(want)[:300]}
                    live.append((ci, v, snapshot(v, T)))
                elif k < 0.75:
                    j = rng.randrange(len(live))
                    cj, v, _ = live[j]
                    Tj = objs[cj].resolve("main")
                    d = mutate(rng, v, Tj)
                    if d is None:
                        continue
                    log.append(f"v{j}.{d}")
                    live[j] = (cj, v, snapshot(v, Tj))          # the mutated instance's own new state is whatever it is now
                elif k < 0.85:
                    j = rng.randrange(len(live))
                    live[j][1].dumps()
                    log.append(f"v{j}.dumps()")
                elif k < 0.9:
                    cs.endian = rng.choice("<>")
                    log.append(f"cs{ci}.endian = {cs.endian}")
                elif k < 0.95 and "union" not in texts[ci]:
                    # the type is extended after instances exist: later default constructions must not share their new mutable members
                    fname, texpr = f"x{step}", rng.choice([("uint16", 3), ("uint8", 2), ("uint32", None)] + ([("in", None), ("in", 2)] if "struct in " in texts[ci] else []))
                    t_ = cs.resolve(texpr[0])
                    T.add_field(fname, t_ if texpr[1] is None else t_[texpr[1]])
                    exts[ci].append((fname, texpr))
                    live = [x for x in live if x[0] != ci]          # instances of the old shape are retired
                    sigs[ci] = class_signature(cs)
                    log.append(f"cs{ci}: main.add_field({fname}, {texpr})")
                else:
                    cs.load(f"struct extra{step} {{ uint8 q; uint16 r[2]; }};")
                    cs.add_type(f"alias{step}", "uint32")
                    log.append(f"cs{ci}: load extra{step}, add_type alias{step}")
            except (NotImplementedError, EOFError, UnicodeDecodeError):
                continue          # unsupported operation / input rejected by the parser: not this property's subject
            except Exception as e:  # noqa: BLE001
                problem = {"what": "operation failed", "observed": f"{type(e).__name__}: {e}", "expected": "no error"}
            # no operation may change any class (field order, offsets, enum members) of any cstruct object
            if problem is None:
                for k2, cs2 in enumerate(objs):
                    now = {k: v for k, v in class_signature(cs2).items() if k in sigs[k2]}
                    if now != sigs[k2]:
                        diff = [k for k in sigs[k2] if now.get(k) != sigs[k2][k]]
                        problem = {"what": f"type {diff[0]} of cs{k2} was changed by an operation", "observed": repr(now[diff[0]])[:300], "expected": repr(sigs[k2][diff[0]])[:300]}
                        break
            # every OTHER live instance must be unchanged
            if problem is None:
                for j, (cj, v, shadow) in enumerate(live):
                    now = snapshot(v, objs[cj].resolve("main"))
                    if now != shadow:
                        problem = {"what": f"instance v{j} changed by an operation on something else", "observed": repr(now)[:300], "expected": repr(shadow)[:300]}
                        break
            if problem:
                failures += 1
                sig = "C14/default-shared" if ("main()" in " ".join(log) and "changed by" in problem["what"] or "default construction" in problem["what"]) else "C14/" + problem["what"].split(" ")[0]
                run.report(sig, {"definition": text, "ops": [{"op": "history", "history": log[-12:], **problem}]})
                break

    # two cstruct objects go through the same definitions; one of them parses half way: a count that is only evaluated at read time (the constant and
    # the type it names are defined after the structure) must follow the definitions, not an earlier parse
    LATE = "struct record { uint8 kind; uint16 slots[NUM_SLOTS * 2]; uint8 pad[sizeof(trailer)]; uint8 check; };"
    for compiled in (False, True):
        n_ops += 2
        outs = []
        for parse_between in (False, True):
            cs_l = cstruct()
            cs_l.load(LATE, compiled=compiled)
            cs_l.load("#define NUM_SLOTS 1\nstruct trailer { uint8 a; };", compiled=compiled)
            if parse_between:
                first = cs_l.record(bytes(range(1, 17)))
                if (list(first.slots), list(first.pad), first.check) != ([0x0302, 0x0504], [6], 7):
                    failures += 1
                    run.report("C14/late-count", {"definition": LATE, "ops": [{"op": "parse under NUM_SLOTS = 1", "observed": repr(first), "expected": "2 slots, 1 pad byte"}]})
            cs_l.load("#define NUM_SLOTS 2")
            cs_l.trailer.add_field("b", cs_l.uint8)
            r = cs_l.record(bytes(range(1, 17)))
            outs.append((list(r.slots), list(r.pad), r.check, r.dumps()))
        want = ([0x0302, 0x0504, 0x0706, 0x0908], [10, 11], 12, bytes(range(1, 13)))
        if outs[0] != want or outs[1] != want:
            failures += 1
            run.report("C14/late-count", {"definition": LATE, "load_kwargs": {"compiled": compiled, "align": False},
                       "ops": [{"op": "NUM_SLOTS 1 -> (parse) -> NUM_SLOTS 2, trailer extended -> parse", "observed": repr(outs)[:400], "expected": repr(want)}]})
    for prob in lookalike_problems()[:6]:
        failures += 1
        n_ops += 1
        run.report("C14/look-alike-definitions", {"definition": prob["object"], "ops": [{"op": "two cstruct objects, look-alike definitions", **prob}]})
    n_ops += 4 * 2 * 2 * len(LOOKALIKES)
    for prob in F.default_sharing_problems():
        failures += 1
        n_ops += 1
        run.report("C14/default-shared", {"definition": "fixed default-construction histories (vf/props/_family.py)", "ops": [{"op": "history", **prob}]})

    F.obligation_fallback(run, ok, bool(failures))
    cov = run.coverage
    cov["evaluations"] = n_ops
    cov["distinct_nontrivial"] = n_hist
    cov["traces_validated_against_impl"] = n_hist - failures
    cov["rule"] = ("random histories (4-13 operations) over 1-3 cstruct objects loaded with the same definition (compiled or not, aligned or not): default construction, parse, in-place "
                   "mutation of fields / array elements / nested structures at depth <= 2, dumps, endianness switch, load + add_type; after every operation every other live instance "
                   "is compared with its shadow snapshot, default constructions and parses with a brand new cstruct object. distinct_nontrivial = number of histories")
    cov["distribution"] = {"histories": n_hist, "operations": n_ops, "oracle_failures": failures}
    cov["samples"] = [{"definition": DEFS[0], "history": ["cs0: v0 = main()", "v0.arr[1] = ...", "cs1: v1 = main()", "v1.ns[0].y = ...", "cs0.endian = >", "cs0: v2 = main(...)"]}]
    run.assumptions += ["instances are compared through their public field values (nested), not object identity"]


def replay(rep: dict) -> int:
    print("re-run ./check C14; the replay holds the definition and the operation history")
    return 1
