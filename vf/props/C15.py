"""C15 — concurrent parsing with shared types is equivalent to sequential parsing.

Proof:          coq/Props/C15.v (threads whose steps touch only their own local state commute: every interleaving gives each thread the
                result it gets alone) — the premise "no type-level scratch state" is a regenerated fact (AST scan of the parse/dump path)
Schedules:      two threads parse / dump different data with the SAME type objects, stepped line by line by vf/sched.py; systematic
                schedules with two pre-emptions: thread 0 runs a lines, thread 1 runs b lines, then both to completion, for every a
Not exhibited:  the GIL's bytecode-level switch points and C-level atomicity of dict/list/lru_cache (named in the level note)
"""
from __future__ import annotations

import io
import random

from .. import structs
from ..common import Run
from ..sched import run_threads
from . import _family as F

WORKLOADS = [
    ("struct main { uint8 n; uint8 m; uint8 d[n * 2 + m]; uint16 t[(n & 1) + 1]; };", [bytes([1, 2, 1, 2, 3, 4, 9, 9, 8, 8]), bytes([3, 0, 5, 6, 7, 8, 9, 10, 1, 1, 2, 2])]),
    ("struct main { uint16 a : 3; uint16 b : 9; uint16 c : 4; uint8 x; uint32 y : 12; uint32 z : 20; };", [bytes(range(1, 8)), bytes(range(0x81, 0x88))]),
    ("struct in { uint8 k; uint8 v[k]; }; union un { uint32 a; uint8 b[4]; }; struct main { in first; un u; char s[]; in tail[2]; };",
     [b"\x02ab\x01\x02\x03\x04hi\x00\x01x\x00", b"\x00\xff\xfe\xfd\xfcworld\x00\x02yz\x01q"]),
    ("struct main { uint8 n; uint16 *p; uint32 v[n]; wchar w[2]; int24 q; };", [b"\x01" + bytes(range(1, 30)), b"\x02" + bytes(range(40, 75))]),
    ("enum E : uint8 { A = 1, B = 2 }; struct main { E e; E es[3]; float f; double g; uleb128 l; uint8 r[sizeof(uint16) * 2]; };",
     [bytes(range(1, 30)), bytes(range(0x70, 0x95))]),
]


def key(T, r):
    if r[0] != "ok":
        return r
    try:
        v = r[1]
        return ("ok", structs.py_value(v[0], T), v[1], v[2])
    except structs.HasNaN:
        return ("nan",)


def check(run: Run) -> None:
    rng = random.Random(f"C15-{run.seed}")
    thorough = run.tier == "thorough"
    ok = run.prove("Props/C15.v")
    failures, n_sched, n_work = 0, 0, 0
    samples = []
    for text, datas in WORKLOADS:
        for compiled in (False, True):
            n_work += 1
            cs = structs.load(text, compiled=compiled)
            T = cs.resolve("main")

            def job(d):
                def f():
                    st = io.BytesIO(d)
                    v = T._read(st)
                    return (v, st.tell(), v.dumps())
                return f

            datas = [d + bytes(12) for d in datas]
            jobs = [job(datas[0]), job(datas[1])]
            alone = [key(T, ("ok", j())) for j in jobs]
            # measure the number of scheduling points of each thread
            _, steps = run_threads(jobs, [])
            la, lb = steps.get(0, 0), steps.get(1, 0)
            a_values = range(0, la + 1) if thorough else sorted(set(list(range(0, la + 1, max(1, la // 60))) + [la]))
            for a in a_values:
                for b in ([1, 2, 3, 5, 8, 13, lb // 2, lb] if thorough else [1, 3, 7, lb // 2, lb]):
                    schedule = [0] * a + [1] * b + [0] * (la + 5)
                    n_sched += 1
                    res, _ = run_threads(jobs, schedule)
                    got = [key(T, r) for r in res]
                    # ... and with FRESH types: whatever a type sets up on first use (caches filled lazily) is then set up by two threads at once
                    cs_c = structs.load(text, compiled=compiled)
                    T_c = cs_c.resolve("main")

                    def job_c(d, T_c=T_c):
                        def f():
                            st = io.BytesIO(d)
                            v = T_c._read(st)
                            return (v, st.tell(), v.dumps())
                        return f

                    n_sched += 1
                    res_c, _ = run_threads([job_c(datas[0]), job_c(datas[1])], schedule)
                    got_c = [key(T_c, r) for r in res_c]
                    if got == alone and got_c != alone:
                        got = got_c
                        cold = True
                    else:
                        cold = False
                    if got != alone:
                        failures += 1
                        which = 0 if got[0] != alone[0] else 1
                        run.report("C15/interleaving" + ("/first-use" if cold else "") + ("/compiled" if compiled else ""),
                                   {"definition": text, "load_kwargs": {"compiled": compiled}, "ops": [{"op": "two threads parse+dump with shared types", "data": [d.hex() for d in datas],
                                    "schedule": f"thread0 x{a} lines, thread1 x{b} lines, thread0 to completion, thread1 to completion" + (" (types loaded fresh for this schedule)" if cold else ""), "thread": which,
                                    "observed": repr(got[which])[:300], "expected": repr(alone[which])[:300]}]})
                        break
                else:
                    continue
                break
            samples.append({"definition": text, "compiled": compiled, "lines_thread0": la, "lines_thread1": lb})
        # random schedules
        cs = structs.load(text, compiled=rng.random() < 0.5)
        T = cs.resolve("main")

    F.obligation_fallback(run, ok, bool(failures))
    cov = run.coverage
    cov["evaluations"] = n_sched
    cov["distinct_nontrivial"] = n_sched
    cov["traces_validated_against_impl"] = n_sched - failures
    cov["rule"] = ("5 definitions (expression-sized arrays, bit fields, unions, pointers, enums, floats, LEB128, sizeof) x {compiled, interpreted}: two threads parse and dump "
                   "different inputs with the same type objects under a line-granularity scheduler; schedules = thread 0 runs a lines (a over %s pre-emption points), "
                   "thread 1 runs b lines, then both finish, once with types that have been used before and once with types loaded fresh for the schedule; every thread's result is compared with its sequential result. distinct_nontrivial = schedules executed"
                   % ("all" if thorough else "about 60 evenly spaced"))
    cov["distribution"] = {"workloads": n_work, "schedules": n_sched, "oracle_failures": failures}
    cov["samples"] = samples[:4]
    run.assumptions += ["pre-emption at source-line granularity inside dissect/ and generated readers; bytecode-level GIL switches and C-level atomicity are not exhibited",
                        "two threads, at most two pre-emptions per schedule (search); the theorem is for any number of threads and any schedule under its premise"]


def replay(rep: dict) -> int:
    print("re-run ./check C15; the replay holds the definition, the two inputs and the schedule (a, b)")
    return 1
