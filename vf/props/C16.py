"""C16 — pointers: width from configuration, dereference reads the target in place.

Proof:          coq/Props/C16.v
Correspondence: structures with pointer fields x pointer width {8,16,32,64} x endianness x targets (scalars, structs, char, pointers to
                pointers, void) x compiled/interpreted: parse, dump, and dereference of every pointer vs Model.Pointer.deref
Oracle:         value = unsigned integer stored; dereference == parsing the target at that absolute offset (NUL-terminated string for char);
                stream position unchanged; repeated access stable; null / streamless pointers raise NullPointerDereference; arithmetic yields a
                pointer of the same type on the same stream; dumps writes the address back
"""
from __future__ import annotations

import io
import random

from .. import canon, structs
from ..common import Run, cbool, clist, cz, run_shards
from ..structcorr import Case, build_items, report_unexplained, run_items
from . import _family as F

TARGETS = ["uint8", "uint32", "int16", "char", "void", "T", "uint16 *", "wchar", "E"]
PRELUDE = "enum E : uint16 { E_A = 1, E_B }; struct T { uint16 a; uint8 b[2]; };\n"
WIDTHS = {"uint8": 1, "uint16": 2, "uint24": 3, "uint32": 4, "uint48": 6, "uint64": 8}


def check(run: Run) -> None:
    from dissect.cstruct.exceptions import NullPointerDereference
    from dissect.cstruct.types import Pointer

    rng = random.Random(f"C16-{run.seed}")
    thorough = run.tier == "thorough"
    ok = run.prove("Props/C16.v")
    items, explained, failures, n_oracle = [], set(), 0, 0
    deref_checks, deref_meta = [], []

    combos = [(pw, e, tg, comp) for pw in WIDTHS for e in ("<", ">") for tg in TARGETS for comp in (False, True)]
    native = [(pw, e, tg, comp) for pw in WIDTHS for e in ("@", "=") for tg in TARGETS for comp in (False, True)]   # the machine's byte order: oracle only
    if not thorough:
        combos = rng.sample(combos, 70) + rng.sample(native, 16)
    else:
        combos += native
    for pw, endian, tg, compiled in combos:
        psz = WIDTHS[pw]
        text = PRELUDE + f"struct main {{ uint8 k; {tg} *p; uint16 after; {tg} *q[2]; }};"
        c = Case(text, endian=endian, pointer=pw, compiled=compiled, align=rng.random() < 0.3)
        cs = c.load()
        T = cs.resolve("main")
        for trial in range(4 if thorough else 2):
            body = bytearray(F.random_data(rng, 48))
            size = T.size
            # plant addresses: in range, null, out of range
            offs = {f._name: f.offset for f in T.__fields__}
            order = __import__("sys").byteorder if endian in "@=" else ("little" if endian == "<" else "big")
            limit = min(1 << (8 * psz), 1 << 16)
            addrs = [rng.choice([0, rng.randrange(1, min(40, limit)), rng.randrange(1, min(40, limit)), min(limit - 1, 47), min(limit - 1, 200)]) for _ in range(3)]
            if trial == 0 and size < limit:
                addrs[rng.randrange(3)] = size          # "the data directly follows the header": the stream already sits at the target
            body[offs["p"]:offs["p"] + psz] = addrs[0].to_bytes(psz, order)
            body[offs["q"]:offs["q"] + psz] = addrs[1].to_bytes(psz, order)
            body[offs["q"] + psz:offs["q"] + 2 * psz] = addrs[2].to_bytes(psz, order)
            data = bytes(body)
            c2 = Case(text, endian=endian, pointer=pw, compiled=compiled, align=c.align, ops=[("parse", data, 0), ("dump", data, 0)])
            if endian not in "@=":
                items += build_items(c2)
            st = io.BytesIO(data)
            try:
                v = T._read(st)
            except Exception as e:  # noqa: BLE001
                failures += 1
                n_oracle += 1
                run.report("C16/parse-raises", {**c2.describe(), "ops": [{"op": "parse", "data": data.hex(), "observed": f"{type(e).__name__}: {e}", "expected": "a structure with its pointers"}]})
                continue
            pos_after = st.tell()
            cfg = structs.cfg_term(cs, text)
            for ptr, name in [(v.__dict__["p"], "p"), (v.__dict__["q"][0], "q[0]"), (v.__dict__["q"][1], "q[1]")]:
                n_oracle += 1
                addr = int.__int__(ptr)
                tt = type(ptr).type
                probs = []
                want_addr = int.from_bytes(data[offs["p"]:offs["p"] + psz] if name == "p" else data[offs["q"] + (psz if name == "q[1]" else 0):offs["q"] + (2 * psz if name == "q[1]" else psz)], order)
                if addr != want_addr or not isinstance(ptr, Pointer):
                    probs.append({"what": "pointer value", "observed": addr, "expected": want_addr})
                # dereference
                try:
                    with structs.time_limit(2.0):
                        d1 = ptr.dereference()
                        d2 = ptr.dereference()
                    got = ("ok", None if d1 is None else structs.py_value(d1, tt if tt.__name__ != "char" else cs.resolve("char")[None]))
                    if d1 is not d2:
                        probs.append({"what": "repeated dereference", "observed": "different objects", "expected": "the same cached value"})
                except structs.HasNaN:
                    continue
                except (Exception, structs.Hang) as e:  # noqa: BLE001
                    d1, got = e, ("err", type(e).__name__)
                if st.tell() != pos_after:
                    probs.append({"what": "stream position after dereference", "observed": st.tell(), "expected": pos_after})
                # reference: parse the target at the absolute address from a fresh stream
                if addr == 0:
                    want = ("err", "NullPointerDereference")
                elif tt.__name__ == "void":
                    want = ("ok", None)
                else:
                    ref_t = cs.resolve("char")[None] if tt.__name__ == "char" else tt
                    fs = io.BytesIO(data)
                    fs.seek(addr)
                    try:
                        want = ("ok", structs.py_value(ref_t._read(fs), ref_t))
                    except Exception as e:  # noqa: BLE001
                        want = ("err", type(e).__name__)
                if got != want:
                    probs.append({"what": "dereference", "observed": repr(got)[:200], "expected": repr(want)[:200]})
                # arithmetic
                q = ptr + 2
                if type(q) is not type(ptr) or int.__int__(q) != addr + 2 or q._stream is not ptr._stream:
                    probs.append({"what": "pointer + 2", "observed": f"{type(q).__name__} {int.__int__(q)}", "expected": f"{type(ptr).__name__} {addr + 2} on the same stream"})
                # addition commutes in C: 2 + pointer is the same pointer arithmetic
                r = 2 + ptr
                if type(r) is not type(ptr) or int.__int__(r) != addr + 2 or getattr(r, "_stream", None) is not ptr._stream:
                    probs.append({"what": "reflected: 2 + pointer", "observed": f"{type(r).__name__} {int(r)}", "expected": f"{type(ptr).__name__} {addr + 2} on the same stream"})
                # model comparison of the dereference
                exp = canon.cerr(d1) if isinstance(d1, BaseException) else ("(Ok None)" if d1 is None else f"(Ok (Some {structs.value_term(d1, tt if tt.__name__ != 'char' else cs.resolve('char')[None])}))")
                if endian not in "@=":
                    deref_checks.append(f"rov_eqb (deref {cfg} {structs.ty_term(tt)} {canon.cbytes(data)} (mkPtr {cz(addr)} true)) {exp}")
                    deref_meta.append((c2, name, addr, repr(got)[:200]))
                if probs:
                    failures += 1
                    run.report("C16/" + probs[0]["what"].split(" ")[0], {**c2.describe(), "ops": [{"op": "parse then dereference " + name, "data": data.hex(), "problems": probs[:3]}]})
            # dumping writes the addresses back
            n_oracle += 1
            out = v.dumps()
            for name, lo in (("p", offs["p"]), ("q", offs["q"])):
                w = psz if name == "p" else 2 * psz
                if out[lo:lo + w] != data[lo:lo + w]:
                    failures += 1
                    run.report("C16/dump", {**c2.describe(), "ops": [{"op": "dump", "data": data.hex(), "observed": out.hex(), "expected": "the pointer bytes unchanged"}]})
        # a default-constructed pointer has no stream: null dereference error
        n_oracle += 1
        dv = T()
        try:
            dv.p.dereference()
            failures += 1
            run.report("C16/null", {**c.describe(), "ops": [{"op": "dereference of a default pointer", "observed": "a value", "expected": "NullPointerDereference"}]})
        except NullPointerDereference:
            pass
        except Exception as e:  # noqa: BLE001
            failures += 1
            run.report("C16/null", {**c.describe(), "ops": [{"op": "dereference of a default pointer", "observed": type(e).__name__, "expected": "NullPointerDereference"}]})

    # char *: the target is the NUL-terminated string at the address, whatever its length (block boundaries of buffered readers: 63..65, 127..129)
    for ln in (0, 1, 2, 63, 64, 65, 127, 128, 129, 200, 300):
        for compiled in (False, True):
            body = bytes((i % 250) + 1 for i in range(ln))
            data = (4).to_bytes(2, "little") + b"\xEE\xEE" + body + b"\x00" + b"tail\x00"
            cs = structs.load("struct main { char *p; uint16 k; };", endian="<", pointer="uint16", compiled=compiled)
            n_oracle += 1
            stream = io.BytesIO(data)
            try:
                v = cs.main(stream)
                pos = stream.tell()
                got = v.p.dereference()
                again = v.p.dereference()
                prob = None if (bytes(got) == body and bytes(again) == body and stream.tell() == pos) else {"observed": [bytes(got).hex()[:80], len(got), stream.tell()], "expected": [body.hex()[:80], ln, pos]}
            except Exception as e:  # noqa: BLE001
                prob = {"observed": repr(e)[:200], "expected": f"the {ln}-byte string"}
            if prob:
                failures += 1
                run.report("C16/char-target", {"definition": "struct main { char *p; uint16 k; };", "cstruct_kwargs": {"endian": "<", "pointer": "uint16"}, "load_kwargs": {"compiled": compiled, "align": False},
                                               "ops": [{"op": "dereference of char * at address 4", "string_length": ln, "data": data.hex(), **prob}]})

    # pointers that are members of the ELEMENTS of a structure array (and of nested structures): the target is read from the caller's stream
    for compiled in (False, True):
        for endian in ("<", ">"):
            text = "struct entry { char *name; uint16 id; }; struct inner { uint16 *q; }; struct main { entry entries[2]; inner in; uint8 k; };"
            cs = structs.load(text, endian=endian, pointer="uint16", compiled=compiled)
            bo = "little" if endian == "<" else "big"
            head = b"".join(x.to_bytes(2, bo) for x in (16, 1, 20, 2, 24)) + b"\x07"
            data = head + bytes(16 - len(head)) + b"foo\x00" + b"barbaz\x00"[:4] + (0xBEEF).to_bytes(2, bo) + b"tail"
            data = data[:20] + b"bar\x00" + data[24:]
            n_oracle += 1
            stream = io.BytesIO(data)
            try:
                v = cs.main(stream)
                pos = stream.tell()
                got = (bytes(v.entries[0].name.dereference()), bytes(v.entries[1].name.dereference()), int(v.in_.q.dereference()) if hasattr(v, "in_") else int(getattr(v, "in").q.dereference()), stream.tell())
                want = (b"foo", b"bar", 0xBEEF, pos)
                prob = None if got == want else {"observed": repr(got), "expected": repr(want)}
            except Exception as e:  # noqa: BLE001
                prob = {"observed": repr(e)[:200], "expected": "b'foo', b'bar', 0xBEEF"}
            if prob:
                failures += 1
                run.report("C16/pointer-in-array-element", {"definition": text, "cstruct_kwargs": {"endian": endian, "pointer": "uint16"}, "load_kwargs": {"compiled": compiled, "align": False},
                           "ops": [{"op": "dereference pointers held by elements of a structure array", "data": data.hex(), **prob}]})

    # the pointer width follows the configuration that is current when a definition is loaded
    for pw1, pw2 in [("uint64", "uint16"), ("uint16", "uint32"), ("uint32", "uint8"), ("uint8", "uint64")]:
        for compiled in (False, True):
            c = Case(PRELUDE + "struct first { uint8 k; uint32 *p; T *t; };", pointer=pw1, compiled=compiled,
                     history=[("set_pointer", pw2), ("load", "struct main { uint8 k; uint32 *p; T *t; uint16 z; };")])
            data = F.random_data(rng, 40)
            c.ops = [("layout",), ("parse", data, 0), ("dump", data, 0)]
            its = build_items(c)
            items += its
            n_oracle += 1
            T2 = c._T
            want = 1 + 2 * WIDTHS[pw2] + 2
            if T2.size != want or T2.__fields__[1].type.size != WIDTHS[pw2]:
                failures += 1
                run.report("C16/width-after-reconfiguration", {**c.describe(), "ops": [{"op": "load after cs.pointer = " + pw2, "observed": f"len(main) = {T2.size}, pointer field size {T2.__fields__[1].type.size}",
                           "expected": f"len(main) = {want}, pointer field size {WIDTHS[pw2]}"}]})

    res, errs = run_shards("C16d", ["Definition checks : list bool := [\n" + ";\n".join("  " + x for x in deref_checks[i:i + 150]) + "\n]." for i in range(0, len(deref_checks), 150)], "Model.Pointer")
    for e in errs:
        run.violation({"kind": "correspondence", "theorem_or_correspondence": "corr_ptr", "error": e[:800]}, tag="corr-shard-error", no_input=True)
    bad = [deref_meta[k * 150 + i] for k, idx in enumerate(res) for i in idx]
    if bad and not failures:
        c2, name, addr, got = bad[0]
        run.violation({"kind": "correspondence", "theorem_or_correspondence": "corr_ptr (Model.Pointer.deref vs Pointer.dereference)", **c2.describe(),
                       "pointer": name, "address": addr, "implementation": got, "count": len(bad)}, tag="corr-deref", no_input=True)
    mism = run_items(run, items)
    report_unexplained(run, mism, explained, "corr_ptr (structures with pointer fields: Model.Reader/Writer)")
    # ---- recorded finding: a pointer that is a member of a fixed-size union is bound to the union's private copy of its bytes ----
    for compiled in (False, True):
        n_oracle += 1
        cs_u = structs.load("struct main { uint8 a; union { uint8 *p; uint8 raw; } u; uint8 b; };", pointer="uint8", compiled=compiled)
        stream = io.BytesIO(bytes([1, 3, 9, 0xAA, 0xBB]))
        v = cs_u.main(stream)
        try:
            got = int(v.u.p.dereference())
        except Exception as e:  # noqa: BLE001
            got = type(e).__name__
        if got != 0xAA:
            failures += 1
            run.report("C16/pointer-in-union" if got == "EOFError" and v.u.p._stream is not stream else "C16/dereference",
                       {"definition": "struct main { uint8 a; union { uint8 *p; uint8 raw; } u; uint8 b; };", "cstruct_kwargs": {"endian": "<", "pointer": "uint8"}, "load_kwargs": {"compiled": compiled, "align": False},
                        "ops": [{"op": "parse 01 03 09 aa bb, dereference u.p (address 3)", "observed": repr(got), "expected": "0xaa: the byte at absolute offset 3 of the stream"}]})

    F.obligation_fallback(run, ok, bool(failures or mism or bad))
    F.finish_cov(run, items, mism,
                 "struct { uint8 k; T *p; uint16 after; T *q[2]; } for pointer widths 8/16/32/64 x {<,>} x targets {uint8, uint32, int16, char, void, struct, pointer to pointer, "
                 "wchar, enum} x {compiled, interpreted}, addresses planted: null, in range, near the end, out of range; every pointer dereferenced twice, compared with "
                 "parsing the target at the address and with Model.Pointer.deref; arithmetic; dump; default (streamless) pointers",
                 {"oracle_only_checks": n_oracle, "deref_model_checks": len(deref_checks), "deref_model_mismatches": len(bad), "oracle_failures": failures}, exhaustive=thorough)


def replay(rep: dict) -> int:
    print("re-run ./check C16; the replay holds definition, configuration and data")
    return 1
