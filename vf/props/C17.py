"""C17 — structure values: field-wise equality, consistent hash/bool, construction, local assignment.

Proof:          coq/Props/C17.v
Correspondence: dumps after single-field assignments on parsed fixed-size structures vs Model.Writer
Oracle:         many classes sharing a field count in one process (the generated methods are cached per field count and patched with the
                field names): eq iff same class and all fields equal; equal => equal hash; bool iff any field truthy; positional / keyword
                construction == default + assignment; a single-field assignment changes exactly that field's bytes (bits for bit fields)
"""
from __future__ import annotations

import copy
import random

from .. import structs
from .. import methodsrc as M
from ..common import Run, clist, cnat, cstr, cz, run_shards
from ..structcorr import Case, build_items, report_unexplained, run_items
from . import _family as F

NAMES = ["a", "b", "c", "x", "y", "hash", "any", "other", "_0", "_1", "n", "fh", "args", "kwargs", "result", "tuple", "id", "len", "val", "k9", "zz", "A", "B"]
SCALARS = ["uint8", "int16", "uint32", "uint64", "int24", "char", "float", "uint16"]


def check(run: Run) -> None:
    rng = random.Random(f"C17-{run.seed}")
    thorough = run.tier == "thorough"
    ok = run.prove("Props/C17.v")
    items, explained, failures, n_oracle = [], set(), 0, 0
    meth_checks, meth_meta = [], []          # tie of Model/Methods.v to the byte code of the real generated methods

    # ---- part 1: generated methods on classes that share a field count ----
    from dissect.cstruct import cstruct

    for rnd in range(60 if thorough else 14):
        cs = cstruct(endian=rng.choice("<>"))
        k = rng.randrange(1, 7)
        defs = []
        for j in range(6):
            names = rng.sample(NAMES, k)
            if j == 1:
                names = list(reversed(defs[0][1]))            # same names, reversed order
            if j == 2:
                names = defs[0][1][1:] + defs[0][1][:1]        # rotated
            types = [rng.choice(SCALARS) for _ in range(k)]
            if j == 5:
                types = defs[0][2]
                names = defs[0][1]                             # identical shape, different class
            defs.append((f"S{rnd}_{j}", names, types))
        text = "\n".join(f"struct {nm} {{ " + " ".join(f"{t} {n};" for n, t in zip(ns, ts)) + " };" for nm, ns, ts in defs)
        cs.load(text, compiled=rng.random() < 0.5)
        for nm, ns, ts in defs:
            T = cs.resolve(nm)
            n_oracle += 1
            probs = []
            vals = {n: structs.gen_py(T.lookup[n].type, rng) for n in ns}
            a = T(**vals)
            b = T()
            for n in ns:
                setattr(b, n, vals[n])
            pos = T(*[vals[n] for n in ns]) if not (k == 1 and isinstance(vals[ns[0]], bytes)) else a
            dflt = T()
            for n, t in zip(ns, ts):
                if getattr(a, n) != vals[n] or getattr(pos, n) != vals[n]:
                    probs.append({"what": f"construction: field {n}", "observed": repr(getattr(a, n)), "expected": repr(vals[n])})
                z = getattr(dflt, n)
                if z != T.lookup[n].type.__default__() or bool(z) and t != "char":
                    probs.append({"what": f"default of {n}", "observed": repr(z), "expected": "the type's zero value"})
            if not (a == b and b == a and a == pos) or (a != b):
                probs.append({"what": "eq: keyword / positional construction vs default + assignment", "observed": "not equal", "expected": "equal"})
            try:
                if hash(a) != hash(b):
                    probs.append({"what": "hash of equal instances", "observed": "different", "expected": "equal"})
            except TypeError:
                pass
            if bool(a) != any(bool(vals[n]) for n in ns):
                probs.append({"what": "bool", "observed": bool(a), "expected": any(bool(vals[n]) for n in ns)})
            partial = T(**{ns[0]: vals[ns[0]]})
            for n in ns[1:]:
                if getattr(partial, n) != T.lookup[n].type.__default__():
                    probs.append({"what": f"unspecified field {n}", "observed": repr(getattr(partial, n)), "expected": "zero value"})
            # one field changed -> not equal
            for n in ns:
                c2 = copy.copy(a)
                nv = structs.gen_py(T.lookup[n].type, rng)
                if nv == vals[n]:
                    continue
                setattr(c2, n, nv)
                if c2 == a or not (c2 != a):
                    probs.append({"what": f"eq after changing {n}", "observed": "still equal", "expected": "not equal"})
            # same field values in another class are never equal
            for nm2, ns2, ts2 in defs:
                if nm2 != nm and ns2 == ns and ts2 == ts:
                    o = cs.resolve(nm2)(**vals)
                    if o == a or a == o:
                        probs.append({"what": "eq across classes", "observed": "equal", "expected": "not equal (different structure type)"})
            # hash follows the current field values: hash, assign, compare with a fresh equal instance
            try:
                h = T(**vals)
                hash(h)
                n0 = ns[0]
                nv = structs.gen_py(T.lookup[n0].type, rng)
                setattr(h, n0, nv)
                fresh = T(**{**vals, n0: nv})
                if h == fresh and hash(h) != hash(fresh):
                    probs.append({"what": "hash after assignment", "observed": "differs from the hash of an equal fresh instance", "expected": "equal instances hash equally"})
                if h != fresh:
                    probs.append({"what": "eq after assignment", "observed": "not equal to a fresh instance with the same fields", "expected": "equal"})
            except TypeError:
                pass
            # the same definition in ANOTHER cstruct object is a different structure type
            other_cs = cstruct(endian="<" if cs.endian == ">" else ">")
            other_cs.load(text, compiled=False)
            try:
                o2 = other_cs.resolve(nm)(**vals)
                if o2 == a or a == o2:
                    probs.append({"what": "eq across cstruct objects", "observed": "equal", "expected": "not equal: same name and layout but a different structure type"})
            except Exception:  # noqa: BLE001
                pass
            if probs:
                failures += 1
                run.report("C17/" + probs[0]["what"].split(":")[0].split(" ")[0], {"definition": text, "type": nm, "ops": [{"op": "construct/compare", "values": repr(vals)[:300], "problems": probs[:3]}]})
            failures += method_tie(run, rng, T, nm, ns, vals, text, rnd * 10 + defs.index((nm, ns, ts)), meth_checks, meth_meta)
        # the union variant of the templates: one union per round with the member names of the first structure
        utext = f"union U{rnd} {{ " + " ".join(f"{t} {n};" for n, t in zip(defs[0][1], defs[0][2])) + " };"
        cs.load(utext, compiled=False)
        failures += union_tie(run, cs.resolve(f"U{rnd}"), f"U{rnd}", defs[0][1], utext, meth_checks, meth_meta)

    # ---- part 2: assignment locality on fixed-size structures ----
    for i in range(600 if thorough else 120):
        c = F.gen_case(rng, static_only=True, unions=False, depth=1, max_fields=6, leb=False)
        try:
            cs = c.load()
            T = cs.resolve("main")
        except Exception:  # noqa: BLE001
            continue
        if not T.__fields__ or T.size is None:
            continue
        data = F.random_data(rng, T.size)
        fi = rng.randrange(len(T.__fields__))
        c.ops = [("assign", data, 0, fi, rng.randrange(1 << 30))]
        try:
            its = build_items(c)
        except structs.HasNaN:
            continue
        items += its
        for it in its:
            if not it.impl or it.impl[0] != "assign":
                continue
            n_oracle += 1
            _, f, before, after = it.impl
            if isinstance(after, Exception) or before is None:
                continue
            # bytes allowed to change: the field's extent (the storage unit for bit fields)
            offs = [g.offset for g in T.__fields__]
            if f.bits:
                # locate the unit: the closest preceding field with an offset (the first field of the unit)
                j = fi
                while T.__fields__[j].offset is None and j > 0:
                    j -= 1
                lo = T.__fields__[j].offset
                base = f.type.type if hasattr(f.type, "type") and not hasattr(f.type, "num_entries") else f.type
                hi = lo + base.size
            else:
                lo, hi = f.offset, f.offset + f.type.size
            changed = [k for k in range(max(len(before), len(after))) if k >= len(before) or k >= len(after) or before[k] != after[k]]
            outside = [k for k in changed if not (lo <= k < hi)]
            if outside or len(before) != len(after):
                failures += 1
                explained.add(id(it))
                run.report("C17/assign-not-local", {**c.describe(), "ops": [{"op": f"assign field {f._name}", "data": data.hex(), "observed": f"bytes {outside[:8]} changed (dump {after.hex()})",
                           "expected": f"only bytes [{lo}, {hi}) may change (dump before: {before.hex()})"}]})

    # the TEMPLATES themselves (what _codegen compiles for a field count, before any patching) are the model's templates over _0 .. _{n-1}
    from dissect.cstruct.types import structure as _S
    tconst = lambda c: "CNone" if c is None else f"(CInt {cnat(c)})"  # noqa: E731
    for n in range(1, 9 if not thorough else 17):
        try:
            parsed = [("eq", "make_eq", M.read_eq(_S._make__eq__(n))), ("bool", "make_bool", M.read_bool(_S._make__bool__(n))),
                      ("hash", "make_hash", M.read_hash(_S._make__hash__(n))), ("init", "make_init", M.read_init(_S._make_structure__init__(n), tconst)),
                      ("union-init", "make_union_init", M.read_union_init(_S._make_union__init__(n), tconst))]
        except M.Shape as e:
            failures += 1
            run.report("C17/generated-code-shape", {"definition": f"templates for {n} fields", "ops": [{"op": "read the byte code of the templates", "observed": str(e),
                       "expected": "the shape the templates of structure.py compile to (vf/methodsrc.py)"}]})
            continue
        for kind, mk, pc in parsed:
            coq = f"code_eqb Z Z.eqb (template Z ({mk} Z) {cnat(n)}) {M.code_term(pc)}"
            meth_checks.append(coq)
            meth_meta.append({"kind": "template-" + kind, "what": f"template of __{kind}__ for {n} fields", "coq": coq,
                              "observed": f"names {pc['names']}, consts {pc['consts']}, varnames {pc['varnames']}, body {pc['body']}", "definition": f"_make_*({n})", "type": "-"})
    res, errs = run_shards("C17m", ["Definition checks : list bool := [\n" + ";\n".join("  " + x for x in meth_checks[i:i + 150]) + "\n]." for i in range(0, len(meth_checks), 150)]
                           or ["Definition checks : list bool := []."], "Model.Methods")
    for e in errs:
        failures += 1
        run.report("C17/methods-shard", {"definition": "shard of generated-method checks did not evaluate", "ops": [{"op": "coqc", "observed": e[-600:], "expected": "list of failing indices"}]})
    for si, bad in enumerate(res):
        for bi in bad:
            failures += 1
            meta = meth_meta[si * 150 + bi]
            run.report("C17/generated-method-" + meta["kind"], {"definition": meta["definition"], "type": meta["type"],
                       "ops": [{"op": meta["what"], "observed": meta["observed"], "expected": "what coq/Model/Methods.v computes: " + meta["coq"][:700]}]})
    run.cov_extra = {"generated_method_checks": len(meth_checks), "generated_method_kinds": {k: sum(1 for m in meth_meta if m["kind"] == k) for k in sorted({m["kind"] for m in meth_meta})}}
    mism = run_items(run, items)
    report_unexplained(run, mism, explained, "corr_assign (Model.Writer.dumps of the value after a single-field assignment)")
    # unspecified fields take the type's zero value - also after other instances were mutated and after the type was extended
    for prob in F.default_sharing_problems():
        if "C17" == "C17" or "add_field" in " ".join(prob["history"]):
            failures += 1
            n_oracle += 1
            run.report("C17/construction-default", {"definition": "fixed default-construction histories (vf/props/_family.py)", "ops": [{"op": "history", **prob}]})

    # members of an ANONYMOUS nested structure / union are fields of the enclosing type: they take part in ==, hash and bool
    ANON = [("struct main { struct { uint8 x; uint8 y; }; uint8 z; };", 3), ("struct main { uint8 k; union { uint16 w; uint8 lo; }; };", 3),
            ("struct main { struct { uint8 x; struct { uint8 deep; }; }; uint16 z; };", 4)]
    for text, size in ANON:
        for compiled in (False, True):
            cs_a = structs.load(text, compiled=compiled)
            T = cs_a.resolve("main")
            for i in range(size):
                n_oracle += 1
                base, other = bytes(size), bytes(1 if j == i else 0 for j in range(size))
                a, b, a2 = T(base), T(other), T(base)
                probs = []
                if a == b or not (a != b):
                    probs.append(f"instances parsed from {base.hex()} and {other.hex()} compare equal")
                if not (a == a2 and hash(a) == hash(a2)):
                    probs.append("equal instances are unequal or hash differently")
                if bool(b) is not True or bool(a) is not False:
                    probs.append(f"bool of {other.hex()} is {bool(b)}, of {base.hex()} is {bool(a)}")
                if probs:
                    failures += 1
                    run.report("C17/anonymous-member-fields", {"definition": text, "load_kwargs": {"compiled": compiled, "align": False},
                               "ops": [{"op": "== / hash / bool", "observed": probs, "expected": "every byte of the structure belongs to a field that takes part"}]})
                    break

    # members of an ANONYMOUS nested structure are reachable from the outer structure under their own names - whatever they are called
    from dissect.cstruct import cstruct as _cstruct
    for mname in ("size", "alignment", "dynamic", "fields", "lookup", "length", "sizes"):
        n_oracle += 1
        text = f"struct outer {{ uint8 tag; struct {{ uint16 {mname}; uint16 x; }}; }};"
        try:
            cs_a = _cstruct()
            cs_a.load(text)
            pv = cs_a.outer(bytes([1, 2, 0, 3, 0]))
            q = cs_a.outer()
            q.tag = 1
            setattr(q, mname, 2)
            q.x = 3
            got = (getattr(pv, mname), q.dumps(), q == pv, bool(cs_a.outer()))
        except Exception as e:  # noqa: BLE001
            got = f"{type(e).__name__}: {e}"
        want = (2, bytes([1, 2, 0, 3, 0]), True, False)
        if got != want:
            failures += 1
            # recorded finding for the names the structure CLASS uses for its own data (size, alignment, dynamic, fields, lookup)
            sig = "C17/anonymous-member-named-like-a-class-attribute" if mname in ("size", "alignment", "dynamic", "fields", "lookup") else "C17/anonymous-member"
            run.report(sig, {"definition": text, "ops": [{"op": f"parse 0102000300; read .{mname}; build by assignment; ==; bool of the default", "observed": repr(got)[:300], "expected": repr(want)}]})
    # members called `_` (the one name the library admits more than once in a structure) are still separate fields of the structure:
    # the hypothesis `NoDup names` of construction_is_default_then_assignment, run on the implementation
    for compiled in (False, True):
        n_oracle += 1
        text = "struct main { uint8 _; uint8 a; uint8 _; };"
        obs = []
        try:
            T = structs.load(text, compiled=compiled).resolve("main")
            if T(b"\x01\x02\x03").dumps() != b"\x01\x02\x03":
                obs.append(f"parsed from 010203 dumps {T(bytes([1, 2, 3])).dumps().hex()}")
            if T(b"\x01\x02\x03") == T(b"\x09\x02\x03"):
                obs.append("instances parsed from 010203 and 090203 compare equal")
            y = T()
            y._ = 7
            if sum(1 for b in y.dumps() if b) != 1:
                obs.append(f"one assignment to _ on a default instance dumps {y.dumps().hex()}")
            try:
                if T(1, 2, 3).dumps() != b"\x01\x02\x03":
                    obs.append(f"main(1, 2, 3) dumps {T(1, 2, 3).dumps().hex()}")
            except TypeError as e:
                obs.append(f"main(1, 2, 3): TypeError {e}")
        except Exception as e:  # noqa: BLE001
            obs.append(f"{type(e).__name__}: {e}")
        if obs:
            failures += 1
            exact = len(obs) == 4 and obs[0].endswith("030203") and obs[2].endswith("070007") and "TypeError" in obs[3]
            run.report("C17/repeated-underscore-members" if exact else "C17/repeated-members", {"definition": text, "load_kwargs": {"compiled": compiled, "align": False},
                       "ops": [{"op": "parse / compare / assign / construct", "observed": obs, "expected": "three fields of one byte each: the dump is the input, the first byte takes part in ==, one assignment changes one byte, three positional values are accepted"}]})
    F.obligation_fallback(run, ok, bool(failures or mism))
    F.finish_cov(run, items, mism,
                 "part 1: per round 6 structure classes with the SAME field count in one cstruct object (names permuted, reversed, keyword-like, identical shapes in two classes): "
                 "keyword / positional / partial construction, defaults, ==, !=, hash, bool, single-field changes, cross-class comparison; part 2: random fixed-size structures "
                 "(incl. bit fields, nested structs, arrays): parse, assign one field, the dump may only change inside the field's extent; dumps compared with the model",
                 {"oracle_only_checks": n_oracle, "oracle_failures": failures, **run.cov_extra})
    run.assumptions += ["raw fields only; nested dynamic unions (whose == is defined through an unsupported dump) are outside",
                        "CPython code-object patching (co_names/co_consts/co_varnames replace) is modelled in Model/Methods.v at the level of the name / constant / variable tuples and index-carrying bodies; "
                        "vf/methodsrc.py reads the byte code of the real generated functions (CPython 3.12 opcodes, fail closed) and the interpretation of the opcodes themselves is trusted"]


def _zval(v, seen: list) -> int:
    """injective on the values met (up to ==), 0 exactly for falsy values - the model's truth value of an integer"""
    if not v:
        return 0
    for i, w in enumerate(seen):
        if type(w) is type(v) and w == v:
            return i + 1
    seen.append(v)
    return len(seen)


def method_tie(run: Run, rng, T, nm, ns, vals, text, cls_id, checks: list, meta: list) -> int:
    """(i) the code objects of T.__eq__/__bool__/__hash__/__init__, read from their byte code, are what the model generates for T's
    field names and defaults; (ii) running the parsed code objects in the model gives what the real methods give."""
    import copy as _copy
    seen: list = []
    if any(v != v for v in vals.values()):
        return 0
    dflt = {n: T.lookup[n].type.__default__() for n in ns}

    def cterm(c):
        if c is None:
            return "CNone"
        return f"(CVal {cz(_zval(c, seen))})"
    try:
        pe, pb, ph = M.read_eq(T.__eq__), M.read_bool(T.__bool__), M.read_hash(T.__hash__)
        pi = M.read_init(T.__init__, cterm)
    except M.Shape as e:
        run.report("C17/generated-code-shape", {"definition": text, "type": nm, "ops": [{"op": "read the byte code of the generated methods", "observed": str(e),
                   "expected": "the shape the templates of structure.py compile to (vf/methodsrc.py)"}]})
        return 1
    names = clist(map(cstr, ns), "string")
    fdefs = clist((f"({cstr(n)}, {cz(_zval(dflt[n], seen))})" for n in ns), "string * Z")

    def add(kind, what, coq, observed):
        checks.append(coq)
        meta.append({"kind": kind, "what": what, "coq": coq, "observed": observed, "definition": text, "type": nm})
    for kind, gen, parsed in (("eq", "generate_eq", pe), ("bool", "generate_bool", pb), ("hash", "generate_hash", ph)):
        add("code-" + kind, f"code object of __{kind}__ after patching", f"code_eqb Z Z.eqb ({gen} Z {names}) {M.code_term(parsed)}",
            f"names {parsed['names']}, body {parsed['body']}")
    add("code-init", "code object of __init__ after patching", f"code_eqb Z Z.eqb (generate_init Z {fdefs}) {M.code_term(pi)}",
        f"names {pi['names']}, varnames {pi['varnames']}, consts {pi['consts']}, body {pi['body']}")

    def inst(o, cid):
        return f"(mkInst {cnat(cid)} {clist((f'({cstr(n)}, {cz(_zval(getattr(o, n), seen))})' for n in ns), 'string * Z')})"
    a = T(**vals)
    others = [T(**vals), T()]
    for n in ns:
        c2 = _copy.copy(a)
        setattr(c2, n, dflt[n] if rng.random() < 0.5 else vals[n])
        others.append(c2)
    for o in others:
        add("run-eq", f"a == b with a = {a!r}, b = {o!r}", f"result_eqb Bool.eqb (run_eq Z Z.eqb {M.code_term(pe)} {inst(a, cls_id)} {inst(o, cls_id)}) (Ok {str(a == o).lower()})", repr(a == o))
        add("run-bool", f"bool({o!r})", f"result_eqb Bool.eqb (run_bool Z zt {M.code_term(pb)} {inst(o, cls_id)}) (Ok {str(bool(o)).lower()})", repr(bool(o)))
    # construction: positional prefix + keywords for a random subset of the rest; an explicit None counts as not given
    k = rng.randrange(0, len(ns) + 1)
    kws = [n for n in ns[k:] if rng.random() < 0.6]
    rng.shuffle(kws)
    if True:
        pos_vals = [None if rng.random() < 0.15 else vals[n] for n in ns[:k]]
        # a single positional buffer is the parsing call form, with or without keywords
        if not (len(pos_vals) == 1 and isinstance(pos_vals[0], (bytes, memoryview, bytearray))):
            try:
                o = T(*pos_vals, **{n: vals[n] for n in kws})
                observed = "Ok " + clist((f"({cstr(n)}, {cz(_zval(getattr(o, n), seen))})" for n in ns), "string * Z")
            except TypeError:
                observed = "Err EType"
            opt = lambda v: "None" if v is None else f"(Some {cz(_zval(v, seen))})"  # noqa: E731
            coq = (f"result_eqb (list_eqb (fun x y => String.eqb (fst x) (fst y) && Z.eqb (snd x) (snd y))) "
                   f"(do args <- bind_args Z {M.code_term(pi)} {clist(map(opt, pos_vals), 'option Z')} "
                   f"{clist((f'({cstr(n)}, {opt(vals[n])})' for n in kws), 'string * option Z')}; run_init Z {M.code_term(pi)} args) ({observed})")
            add("run-init", f"{nm}(*{pos_vals!r}, **{{{', '.join(kws)}}})", coq, observed)
    return 0


def union_tie(run: Run, T, nm, ns, text, checks: list, meta: list) -> int:
    """the code objects of a union's __eq__/__bool__/__hash__/__init__ are what the model generates (code level only: what a union does with
    the stored members afterwards is C11's subject)"""
    seen: list = []
    dflt = {n: T.lookup[n].type.__default__() for n in ns}
    cterm = lambda c: "CNone" if c is None else f"(CVal {cz(_zval(c, seen))})"  # noqa: E731
    try:
        pb, ph = M.read_bool(T.__bool__), M.read_hash(T.__hash__)     # (a union's __eq__ is Union.__eq__, written by hand: C11)
        pi = M.read_union_init(T.__init__, cterm)
    except M.Shape as e:
        run.report("C17/generated-code-shape", {"definition": text, "type": nm, "ops": [{"op": "read the byte code of the generated methods of a union", "observed": str(e),
                   "expected": "the shape the templates of structure.py compile to (vf/methodsrc.py)"}]})
        return 1
    names = clist(map(cstr, ns), "string")
    fdefs = clist((f"({cstr(n)}, {cz(_zval(dflt[n], seen))})" for n in ns), "string * Z")
    for kind, gen, parsed in (("bool", f"generate_bool Z {names}", pb), ("hash", f"generate_hash Z {names}", ph),
                              ("union-init", f"generate_union_init Z {fdefs}", pi)):
        coq = f"code_eqb Z Z.eqb ({gen}) {M.code_term(parsed)}"
        checks.append(coq)
        meta.append({"kind": "code-" + kind, "what": f"code object of a union's __{kind}__ after patching", "coq": coq,
                     "observed": f"names {parsed['names']}, consts {parsed['consts']}, body {parsed['body']}", "definition": text, "type": nm})
    return 0


def replay(rep: dict) -> int:
    print("re-run ./check C17; the replay holds the definitions and the values")
    return 1
