"""C18 — incrementally built or self-referential structures equal the one-shot definition.

Proof:          coq/Props/C18.v (re-running the layout loop over fields that already carry their computed offsets changes nothing;
                a laid-out prefix followed by new fields lays out like the whole list)
Correspondence: the incrementally built class (add_field / start_update / commit in every splitting of the field list) vs the model of the
                FINAL field list: layout, parse, dump
Oracle:         incremental class vs one-shot class on the implementation: layout, __compiled__, parse (values, sizes, position), dumps,
                default instance, ==/bool; self-referential struct node { ...; node *next; } vs the same fields with a plain pointer
"""
from __future__ import annotations

import itertools
import random

from .. import structs
from ..common import Run
from ..structcorr import Case, build_items, report_unexplained, run_items
from . import _family as F

# (declaration text for the one-shot form, builder for add_field: lambda cs -> (type, bits))
KINDS = [
    ("uint8 {n};", lambda cs: (cs.uint8, None)), ("uint16 {n};", lambda cs: (cs.uint16, None)), ("uint32 {n};", lambda cs: (cs.uint32, None)),
    ("uint64 {n};", lambda cs: (cs.uint64, None)), ("int24 {n};", lambda cs: (cs.int24, None)), ("char {n};", lambda cs: (cs.char, None)),
    ("char {n}[3];", lambda cs: (cs.char[3], None)), ("uint16 {n}[2];", lambda cs: (cs.uint16[2], None)), ("S {n};", lambda cs: (cs.S, None)),
    ("uint8 {n} : 3;", lambda cs: (cs.uint8, 3)), ("uint8 {n} : 5;", lambda cs: (cs.uint8, 5)), ("uint16 {n} : 9;", lambda cs: (cs.uint16, 9)),
    ("uint32 *{n};", lambda cs: (cs._make_pointer(cs.uint32), None)), ("E {n};", lambda cs: (cs.E, None)), ("wchar {n}[2];", lambda cs: (cs.wchar[2], None)),
    ("uint8 {n}[];", lambda cs: (cs.uint8[None], None)), ("float {n};", lambda cs: (cs.float, None)), ("S {n}[2];", lambda cs: (cs.S[2], None)),
]
PRELUDE = "enum E : uint16 { E_A = 1, E_B }; struct S { uint8 x; uint32 y; };\n"


class IncCase(Case):
    """A structure built by add_field steps: `fields` is the list of KINDS indices, `split` the batch sizes."""

    def __init__(self, fields, split, batch_flags, **kw):
        super().__init__(PRELUDE, **kw)
        self.fields, self.split, self.batch_flags = fields, split, batch_flags

    def load(self):
        from dissect.cstruct import compiler

        cs = structs.load(PRELUDE, endian=self.endian, pointer=self.pointer, compiled=self.compiled, align=self.align)
        st = cs._make_struct("main", [], align=self.align)
        if self.compiled:
            st = compiler.compile(st)
        cs.add_type("main", st)
        i = 0
        for size, use_ctx in zip(self.split, self.batch_flags):
            batch = list(range(i, i + size))
            i += size
            if size == 1 and not use_ctx:
                t, bits = KINDS[self.fields[batch[0]]][1](cs)
                st.add_field(f"f{batch[0]}", t, bits=bits)
            else:
                with st.start_update():
                    for j in batch:
                        t, bits = KINDS[self.fields[j]][1](cs)
                        st.add_field(f"f{j}", t, bits=bits)
        return cs

    def describe(self):
        d = super().describe()
        d.update({"definition": one_shot_text(self.fields), "built_by": {"add_field batches": self.split, "inside start_update()": self.batch_flags}})
        return d


def one_shot_text(fields) -> str:
    return PRELUDE + "struct main { " + " ".join(KINDS[k][0].format(n=f"f{j}") for j, k in enumerate(fields)) + " };"


def compositions(n):
    for k in range(n):
        for cuts in itertools.combinations(range(1, n), k):
            pts = [0, *cuts, n]
            yield [b - a for a, b in zip(pts, pts[1:])]


def sig_of(T):
    return ([(f._name, f.type.__name__, f.bits, f.offset) for f in T.__fields__], T.size, T.alignment, T.dynamic, list(T.fields), list(T.lookup))


def check(run: Run) -> None:
    rng = random.Random(f"C18-{run.seed}")
    thorough = run.tier == "thorough"
    ok = run.prove("Props/C18.v")
    items, explained, failures, n_oracle = [], set(), 0, 0
    n_hist = 0
    for rnd in range(160 if thorough else 36):
        n = rng.randrange(1, 6)
        fields = [rng.randrange(len(KINDS)) for _ in range(n)]
        if any(KINDS[k][0].endswith("[];") for k in fields[:-1]) and rng.random() < 0.5:
            continue
        text = one_shot_text(fields)
        for align in (False, True):
            for compiled in (False, True):
                endian = rng.choice("<>")
                try:
                    ref_cs = structs.load(text, endian=endian, compiled=compiled, align=align)
                except Exception:  # noqa: BLE001 - straddling bit fields etc: rejected in one shot, must also be rejected incrementally (not checked)
                    continue
                R = ref_cs.resolve("main")
                datas = [F.random_data(rng, 40), bytes(range(1, 41))]
                splits = list(compositions(n)) if (thorough or n <= 4) else rng.sample(list(compositions(n)), 8)
                for split in splits:
                    flags = [rng.random() < 0.5 for _ in split]
                    c = IncCase(fields, split, flags, endian=endian, compiled=compiled, align=align)
                    c.ops = [("layout",), ("parse", datas[0], 0), ("dump", datas[0], 0)]
                    n_hist += 1
                    try:
                        its = build_items(c)
                    except Exception as e:  # noqa: BLE001
                        failures += 1
                        run.report("C18/incremental-build-fails", {**c.describe(), "ops": [{"op": "add_field/commit", "observed": f"{type(e).__name__}: {e}", "expected": "the same class as the one-shot definition"}]})
                        continue
                    items += its
                    T, cs = getattr(c, "_T", None), getattr(c, "_cs", None)
                    if T is None:
                        if its and its[0].impl and its[0].impl[0] == "loaderr":
                            failures += 1
                            run.report("C18/incremental-build-fails", {**c.describe(), "ops": [{"op": "add_field/commit", "observed": repr(its[0].impl[1]), "expected": "the same class as the one-shot definition"}]})
                        continue
                    n_oracle += 1
                    probs = []
                    if sig_of(T) != sig_of(R):
                        probs.append({"what": "layout / field tables", "observed": repr(sig_of(T))[:400], "expected": repr(sig_of(R))[:400]})
                    if bool(T.__compiled__) != bool(R.__compiled__):
                        probs.append({"what": "__compiled__", "observed": T.__compiled__, "expected": R.__compiled__})
                    elif T.__compiled__ and getattr(T._read.__func__, "__source__", None) != getattr(R._read.__func__, "__source__", None):
                        # the reader generated at the last commit is the one a one-shot definition gets (same statements: same seeks, blocks, formats)
                        probs.append({"what": "generated reader", "observed": (getattr(T._read.__func__, "__source__", "") or "")[:600], "expected": (getattr(R._read.__func__, "__source__", "") or "")[:600]})
                    for d in datas + [b"\xee" + datas[0], b"\xee\xee\xee" + datas[-1]]:
                        at = len(d) - len(datas[0]) if d.startswith(b"\xee") and len(d) - len(datas[0]) in (1,) else (3 if d.startswith(b"\xee\xee\xee") else 0)
                        a, b = structs.parse(cs, "main", d, at), structs.parse(ref_cs, "main", d, at)
                        try:
                            ka = ("ok", structs.py_value(a[1], T), a[2], dict(a[1]._sizes)) if a[0] == "ok" else ("err", type(a[1]).__name__)
                            kb = ("ok", structs.py_value(b[1], R), b[2], dict(b[1]._sizes)) if b[0] == "ok" else ("err", type(b[1]).__name__)
                        except structs.HasNaN:
                            continue
                        if ka != kb:
                            probs.append({"what": "parse", "data": d.hex(), "observed": repr(ka)[:300], "expected": repr(kb)[:300]})
                        elif a[0] == "ok":
                            try:
                                da, db = a[1].dumps(), b[1].dumps()
                            except Exception:  # noqa: BLE001
                                continue
                            if da != db:
                                probs.append({"what": "dumps", "data": d.hex(), "observed": da.hex(), "expected": db.hex()})
                            if at == 0 and (bool(a[1]) != bool(b[1]) or (a[1] == T(d)) != (b[1] == R(d))):   # (a NaN field makes == false in both)
                                probs.append({"what": "bool / == of parsed instances", "observed": "differs", "expected": "as the one-shot class"})
                    try:
                        if structs.py_value(T(), T) != structs.py_value(R(), R) or T().dumps() != R().dumps():
                            probs.append({"what": "default instance", "observed": repr(structs.py_value(T(), T))[:200], "expected": repr(structs.py_value(R(), R))[:200]})
                    except structs.HasNaN:
                        pass
                    if probs:
                        failures += 1
                        for it in its:
                            explained.add(id(it))
                        run.report("C18/" + probs[0]["what"].split(" ")[0], {**c.describe(), "ops": [{"op": "incremental vs one-shot", "problems": probs[:3]}]})

    # ---- self reference: struct node { uint8 v; node *next; uint16 w; } is laid out like the same fields with a plain pointer ----
    for align in (False, True):
        for compiled in (False, True):
            for ptr in (None, "uint32", "uint16"):
                n_oracle += 1
                a = structs.load("struct node { uint8 v; node *next; uint16 w; };", compiled=compiled, align=align, pointer=ptr)
                b = structs.load("struct other { uint8 q; }; struct node { uint8 v; other *next; uint16 w; };", compiled=compiled, align=align, pointer=ptr)
                A, B = a.node, b.node
                sa = ([(f._name, f.bits, f.offset) for f in A.__fields__], A.size, A.alignment, bool(A.__compiled__))
                sb = ([(f._name, f.bits, f.offset) for f in B.__fields__], B.size, B.alignment, bool(B.__compiled__))
                d = bytes(range(1, 30))
                va, vb = A(d), B(d)
                pa = (va.v, int.__int__(va.__dict__["next"]), va.w, va.dumps())
                pb = (vb.v, int.__int__(vb.__dict__["next"]), vb.w, vb.dumps())
                if sa != sb or pa != pb or A.__fields__[1].type.type is not A:
                    failures += 1
                    run.report("C18/self-reference", {"definition": "struct node { uint8 v; node *next; uint16 w; };", "load_kwargs": {"compiled": compiled, "align": align}, "cstruct_kwargs": {"pointer": ptr},
                               "ops": [{"op": "self-referential vs plain pointer", "observed": repr((sa, pa))[:300], "expected": repr((sb, pb))[:300]}]})

    # recorded finding: a structure that contains an array of itself, aligned mode (the array type is made while the structure is still empty)
    n_oracle += 1
    cs_s = structs.load("struct B { uint32 v; uint8 n; };\nstruct ref { uint32 v; uint8 n; B kids[n]; };\nstruct A { uint32 v; uint8 n; A kids[n]; };", compiled=False, align=True)
    la, lr = [f.offset for f in cs_s.A.__fields__], [f.offset for f in cs_s.ref.__fields__]
    if la != lr:
        failures += 1
        run.report("C18/self-by-value-alignment" if (la, lr) == ([0, 4, 5], [0, 4, 8]) else "C18/self-reference",
                   {"definition": "struct A { uint32 v; uint8 n; A kids[n]; }; (align=True) against struct ref { uint32 v; uint8 n; B kids[n]; } with B = { uint32 v; uint8 n; }",
                    "ops": [{"op": "layout", "observed": repr(la), "expected": repr(lr)}]})

    # a REJECTED extension leaves nothing behind: the class is what it was, and a valid extension afterwards works
    def _state(T):
        return ([(f._name, f.type.__name__, f.bits, f.offset) for f in T.__fields__], T.size, list(T.fields), bool(T.__updating__))

    for compiled in (False, True):
        for how in ("add_field duplicate", "add_field straddle", "start_update duplicate", "load unknown type"):
            n_oracle += 1
            cs0 = structs.load("struct T { uint8 a; uint16 b : 12; };", compiled=compiled)
            T = cs0.T
            before = _state(T)
            probs = []
            try:
                if how == "add_field duplicate":
                    T.add_field("a", cs0.uint16)
                elif how == "add_field straddle":
                    T.add_field("c", cs0.uint16, bits=9)
                elif how == "start_update duplicate":
                    with T.start_update():
                        T.add_field("x", cs0.uint8)
                        T.add_field("a", cs0.uint8)
                else:
                    cs0.load("struct A { uint8 a; unknown_t b; };", compiled=compiled)
                probs.append("the invalid extension was accepted")
            except Exception:  # noqa: BLE001
                pass
            if how == "load unknown type":
                try:
                    cs0.load("struct A { uint8 a; uint8 b; };", compiled=compiled)
                    if len(cs0.A) != 2:
                        probs.append(f"the corrected definition of A has size {len(cs0.A)}")
                except Exception as e:  # noqa: BLE001
                    probs.append(f"the corrected definition of A is rejected after the failed one: {type(e).__name__}: {e}")
            else:
                if _state(T) != before:
                    probs.append(f"class changed by the rejected extension: {_state(T)} (was {before})")
                try:
                    T.add_field("z", cs0.uint8)
                    if "z" not in T.fields or T.size != before[1] + 1:
                        probs.append(f"a valid add_field afterwards gave fields {list(T.fields)} size {T.size}")
                except Exception as e:  # noqa: BLE001
                    probs.append(f"a valid add_field afterwards raised {type(e).__name__}: {e}")
            if probs:
                failures += 1
                run.report("C18/rejected-extension", {"definition": "struct T { uint8 a; uint16 b : 12; };", "load_kwargs": {"compiled": compiled, "align": False},
                           "ops": [{"op": how, "observed": probs, "expected": "the rejected extension leaves the class (and the type table) as it was"}]})

    mism = run_items(run, items)
    report_unexplained(run, mism, explained, "corr_commit (the incrementally built class vs the model of the final field list)")
    # unspecified fields take the type's zero value - also after other instances were mutated and after the type was extended
    for prob in F.default_sharing_problems():
        if "C18" == "C17" or "add_field" in " ".join(prob["history"]):
            failures += 1
            n_oracle += 1
            run.report("C18/stale-default", {"definition": "fixed default-construction histories (vf/props/_family.py)", "ops": [{"op": "history", **prob}]})

    F.obligation_fallback(run, ok, bool(failures or mism))
    F.finish_cov(run, items, mism,
                 "random field sequences (1-5 fields from 18 kinds incl. bit fields, nested structs, arrays, pointers, a trailing null-terminated array) x EVERY splitting into add_field "
                 "batches (each batch committed per field or inside start_update()) x {packed, aligned} x {compiled, interpreted}: layout, field tables, __compiled__, parse (values, "
                 "sizes, position), dumps, defaults, ==/bool vs the one-shot definition and vs the model; self-referential node structs",
                 {"oracle_only_checks": n_oracle, "split_histories": n_hist, "oracle_failures": failures}, exhaustive=True)


def replay(rep: dict) -> int:
    print("re-run ./check C18; the replay holds the field list and the batch splitting")
    return 1
