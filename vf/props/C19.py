"""C19 — utilities: hexdump is lossless, colour cosmetic, pack/unpack/swap are inverses.

Proof:          coq/Props/C19.v
Tie 1:          PRINTABLE, COLOR_NORMAL, row width / special columns of _hexdump, ENDIANNESS_MAP
Correspondence: hexdump(output="string") on every length 0..80 x offsets x prefixes x palettes;
                pack/unpack/swap/pN/uN on boundary + random values x every endianness spelling
Oracle:         an independent parser of the dump text; two's-complement reference; dumpstruct on generated structures
"""
from __future__ import annotations

import random
import re

from .. import canon
from ..common import Run, clist, copt, cpair, cstr, cz, run_shards
from .C05 import ref_int_decode, ref_int_encode

ENDIAN_SPELLINGS = ["little", "big", "network", "<", ">", "!"]
ANSI = re.compile(r"\x1b\[[0-9;]*m")


def colours():
    from dissect.cstruct import utils

    return [getattr(utils, n) for n in dir(utils) if n.startswith("COLOR_") and n != "COLOR_NORMAL"]


def gen_palette(rng: random.Random, n: int):
    cols = colours() + ["<R>", "", "[*]"]
    pal = []
    left = n + rng.randrange(0, 6)
    for _ in range(rng.randrange(0, 7)):
        k = rng.choice([0, 0, 1, 2, 3, 5, 8, 15, 16, 17, 31, 33, left])
        pal.append((k, rng.choice(cols)))
    return pal


def impl_hexdump(data, pal, off, prefix):
    from dissect.cstruct.utils import hexdump

    try:
        return hexdump(data, None if pal is None else list(pal), offset=off, prefix=prefix, output="string")
    except Exception as e:  # noqa: BLE001
        return e


def parse_dump(text: str, prefix: str, ansi: bool):
    """Independent reader of a dump: returns (offsets, bytes) or raises AssertionError."""
    offs, data = [], bytearray()
    if text == "":
        return offs, bytes(data)
    for line in text.split("\n"):
        if ansi:
            line = ANSI.sub("", line)
        assert line.startswith(prefix), "prefix missing"
        line = line[len(prefix):]
        m = re.match(r"([0-9a-f]{8,})  ", line)
        assert m, "offset missing"
        offs.append(int(m.group(1), 16))
        rest = line[m.end():]
        cells = rest[:49]
        hexpart = cells[:24] + cells[25:]          # drop the extra blank after the 8th cell
        assert cells[24] == " ", "missing gap after 8th cell"
        row = []
        for j in range(16):
            c = hexpart[3 * j:3 * j + 3]
            assert len(c) == 3 and c[2] == " ", f"cell {j} malformed"
            if c[:2] == "  ":
                assert all(hexpart[3 * k:3 * k + 2] == "  " for k in range(j, 16)), "data after blank cell"
                break
            row.append(int(c[:2], 16))
        assert rest[49:51] == "  "[: len(rest[49:51])], "separator"
        chars = rest[51:]
        assert len(chars) == len(row), "printable column length"
        for b, ch in zip(row, chars):
            assert ch == (chr(b) if 32 <= b <= 126 else "."), "printable column content"
        data += bytes(row)
    return offs, bytes(data)


def oracle_hexdump(data, pal, off, prefix, out):
    if isinstance(out, Exception):
        return {"observed": f"raises {type(out).__name__}: {out}", "expected": "a dump"}
    std = pal is None or all(ANSI.fullmatch(c) or c == "" or all(ANSI.fullmatch(x) for x in ANSI.findall(c)) and ANSI.sub("", c) == "" for _, c in pal)
    if not std:
        return None   # non-ANSI palette strings cannot be stripped by an independent reader; covered by the model comparison
    try:
        offs, got = parse_dump(out, prefix, ansi=pal is not None)
    except AssertionError as e:
        return {"observed": f"unparsable dump: {e}", "expected": "16 cells per row"}
    if got != data:
        return {"observed": got.hex(), "expected": data.hex()}
    if offs != [off + 16 * k for k in range((len(data) + 15) // 16)]:
        return {"observed": offs, "expected": "running offsets"}
    if pal is not None:
        plain = impl_hexdump(data, None, off, prefix)
        if ANSI.sub("", out) != plain:
            return {"observed": "text differs from the uncoloured dump", "expected": plain}
    return None


# ---------------- pack / unpack / swap ----------------
def impl_call(fn, *a, **k):
    from dissect.cstruct import utils

    try:
        return getattr(utils, fn)(*a, **k)
    except Exception as e:  # noqa: BLE001
        return e


def cendian(sp: str) -> str:
    # ENDIANNESS_MAP.get(endian, endian): unknown spellings go to int.to_bytes unchanged
    return f'(match lookup {cstr(sp)} endianness_map with Some e => e | None => if String.eqb {cstr(sp)} "little" then LE else if String.eqb {cstr(sp)} "big" then BE else EUnknownEndian end)'


def cres_bytes(r) -> str:
    return canon.cerr(r) if isinstance(r, Exception) else f"(Ok {canon.cbytes(r)})"


def cres_int(r) -> str:
    return canon.cerr(r) if isinstance(r, Exception) else f"(Ok {cz(r)})"


def check(run: Run) -> None:
    rng = random.Random(f"C19-{run.seed}")
    thorough = run.tier == "thorough"
    ok = run.prove("Props/C19.v")

    # ---- hexdump cases ----
    hd = []
    lengths = list(range(0, 81)) + ([rng.randrange(81, 400) for _ in range(30)] if thorough else [])
    for n in lengths:
        for rep in range(3 if thorough else 1):
            data = rng.randbytes(n) if rng.random() < 0.7 else bytes(rng.choice([0, 32, 65, 126, 127, 255]) for _ in range(n))
            off = rng.choice([0, 0, 1, 16, 0x1000, 0xFFFFFFF0, 0x123456789])
            prefix = rng.choice(["", "", "> ", "buf{0} ", "  ", "%s|"])
            for pal in (None, [], gen_palette(rng, n), gen_palette(rng, n)):
                hd.append((data, pal, off, prefix))
    hd_out = [impl_hexdump(*c) for c in hd]

    # ---- pack / unpack / swap cases ----
    pk = []
    for size in [None, 0, 8, 16, 24, 32, 48, 64, 128, 12, 7]:
        w = size or 16
        vals = [0, 1, -1, 127, 128, 255, 256, -128, -129, (1 << (w - 1)) - 1, 1 << (w - 1), (1 << w) - 1, 1 << w, -(1 << (w - 1)), -(1 << (w - 1)) - 1]
        vals += [rng.randrange(-(1 << w), 1 << w) for _ in range(6 if thorough else 2)]
        for v in vals:
            for sp in ENDIAN_SPELLINGS:
                pk.append(("pack", v, size, sp))
        for sp in ENDIAN_SPELLINGS:
            for _ in range(4 if thorough else 2):
                n = rng.choice([0, 1, 2, 3, 4, 8, 16, (size or 8) // 8])
                bs = rng.choice([rng.randbytes(n), b"\xff" * n, b"\x80" + bytes(max(0, n - 1)), bytes(max(0, n - 1)) + b"\x80"])[:n]
                pk.append(("unpack", bs, size, sp, rng.random() < 0.5))
        if size:
            for v in vals:
                pk.append(("swap", v, size))
    pk_out = []
    for c in pk:
        if c[0] == "pack":
            pk_out.append(impl_call("pack", c[1], c[2], c[3]))
        elif c[0] == "unpack":
            pk_out.append(impl_call("unpack", c[1], c[2], c[3], c[4]))
        else:
            pk_out.append(impl_call("swap", c[1], c[2]))
    # fixed-width helpers must be the generic functions at that width (checked on the implementation)
    helper_fail = []
    for bits in (8, 16, 32, 64):
        for sp in ENDIAN_SPELLINGS:
            for v in (0, 1, (1 << bits) - 1, -1, -(1 << (bits - 1))):
                a, b = impl_call(f"p{bits}", v, sp), impl_call("pack", v, bits, sp)
                if repr(a) != repr(b):
                    helper_fail.append((f"p{bits}", v, sp, repr(a), repr(b)))
            bs = rng.randbytes(bits // 8)
            for sg in (False, True):
                a, b = impl_call(f"u{bits}", bs, sp, sg), impl_call("unpack", bs, bits, sp, sg)
                if repr(a) != repr(b):
                    helper_fail.append((f"u{bits}", bs.hex(), sp, repr(a), repr(b)))
    for bits in (16, 32, 64):
        for v in (0, 1, 0x1234, (1 << bits) - 1):
            a, b = impl_call(f"swap{bits}", v), impl_call("swap", v, bits)
            if repr(a) != repr(b):
                helper_fail.append((f"swap{bits}", v, "", repr(a), repr(b)))

    # the native spellings "@" and "=" denote the platform's byte order at every width (oracle only: the model's domain is <, >, !)
    import sys as _sys
    for sp in ("@", "="):
        for bits in (8, 16, 24, 32, 48, 64, 128):
            for v in (0, 1, 0x7F, (1 << (bits - 1)) - 1, (1 << bits) - 1, -1, -(1 << (bits - 1))):
                want = (v % (1 << bits)).to_bytes(bits // 8, _sys.byteorder)
                got = impl_call("pack", v, bits, sp)
                back = impl_call("unpack", want, bits, sp, v < 0)
                if got != want or back != v:
                    helper_fail.append(("pack/unpack", v, sp, repr((got, back))[:120], repr((want, v))[:120]))
                if bits in (8, 16, 32, 64):
                    a = impl_call(f"p{bits}", v, sp)
                    if a != want:
                        helper_fail.append((f"p{bits}", v, sp, repr(a)[:80], repr(want)[:80]))

    # ---- correspondence shards ----
    items = []
    for (data, pal, off, prefix), out in zip(hd, hd_out):
        cpal = "None" if pal is None else "(Some " + clist((cpair(cz(k), cstr(c)) for k, c in pal), "(Z * string)") + ")"
        if isinstance(out, Exception):
            items.append("false")
        else:
            items.append(f"String.eqb (hexdump_string color_normal {canon.cbytes(data)} {cpal} {cz(off)} {cstr(prefix)}) {cstr(out)}")
    for c, out in zip(pk, pk_out):
        if c[0] == "pack":
            items.append(f"rb_eqb (u_pack {cz(c[1])} {copt(c[2], cz)} {cendian(c[3])}) {cres_bytes(out)}")
        elif c[0] == "unpack":
            items.append(f"result_eqb Z.eqb (u_unpack {canon.cbytes(c[1])} {copt(c[2], cz)} {cendian(c[3])} {'true' if c[4] else 'false'}) {cres_int(out)}")
        else:
            items.append(f"result_eqb Z.eqb (u_swap {cz(c[1])} {cz(c[2])}) {cres_int(out)}")
    all_cases = [("hexdump", c, o) for c, o in zip(hd, hd_out)] + [("pack", c, o) for c, o in zip(pk, pk_out)]
    per = 250
    shards = ["Definition checks : list bool := [\n" + ";\n".join("  " + x for x in items[i:i + per]) + "\n]." for i in range(0, len(items), per)]
    res, errs = run_shards("C19", shards, "Model.Hexdump Model.Prim Gen.Generated")
    for e in errs:
        run.violation({"kind": "correspondence", "theorem_or_correspondence": "corr_utils", "error": e}, tag="corr-shard-error", no_input=True)
    mism = [all_cases[k * per + i] for k, idx in enumerate(res) for i in idx]

    # ---- oracle ----
    explained = set()
    for i, ((data, pal, off, prefix), out) in enumerate(zip(hd, hd_out)):
        bad = oracle_hexdump(data, pal, off, prefix, out)
        if bad:
            explained.add(("hexdump", i))
            run.report("C19/hexdump", {"ops": [{"op": "hexdump", "data": data.hex(), "palette": pal, "offset": off, "prefix": prefix, **bad}]})
    for i, (c, out) in enumerate(zip(pk, pk_out)):
        bad = None
        if c[0] == "pack":
            _, v, size, sp = c
            e = "<" if sp in ("little", "<") else ">"
            n = ((size or v.bit_length()) + 7) // 8
            want = ref_int_encode(v, n, e, v < 0)
            got = None if isinstance(out, Exception) else out
            if want != got:
                bad = {"observed": repr(out), "expected": want.hex() if want is not None else "an error: value does not fit"}
            elif got is not None and size and size % 8 == 0:
                back = impl_call("unpack", got, size, sp, v < 0)
                if back != v:
                    bad = {"observed": f"unpack(pack(v)) = {back!r}", "expected": v}
        elif c[0] == "unpack":
            _, bs, size, sp, sg = c
            e = "<" if sp in ("little", "<") else ">"
            if size and len(bs) != size // 8:
                if not isinstance(out, ValueError):
                    bad = {"observed": repr(out), "expected": "ValueError (length mismatch)"}
            else:
                want = ref_int_decode(bs, e, sg)
                if out != want:
                    bad = {"observed": repr(out), "expected": want}
        else:
            _, v, size = c
            if not isinstance(out, Exception) and v >= 0 and size % 8 == 0:
                back = impl_call("swap", out, size)
                want = ref_int_decode(ref_int_encode(v, size // 8, ">", False) or b"", "<", False) if 0 <= v < 1 << size else None
                if out != want or back != v:
                    bad = {"observed": f"swap={out!r}, swap(swap)={back!r}", "expected": f"swap={want}, swap(swap)={v}"}
        if bad:
            explained.add(("pack", i))
            run.report(f"C19/{c[0]}", {"ops": [{"op": c[0], "args": [x.hex() if isinstance(x, bytes) else x for x in c[1:]], **bad}]})
    for h in helper_fail:
        run.report("C19/helper", {"ops": [{"op": h[0], "args": list(h[1:3]), "observed": h[3], "expected": h[4]}]})

    ds_n, ds_fail = dumpstruct_oracle(run, rng, thorough)
    # dumpstruct in its other forms: a colourless dump has no escape codes; dumpstruct(Type, data) shows exactly the structure's bytes also when data is
    # longer; an instance built from values can be dumped like a parsed one
    from dissect.cstruct import cstruct as _cs, dumpstruct as _ds
    cs_d = _cs()
    cs_d.load("struct big { uint32 a; uint32 b; uint64 c; uint8 d[16]; }; struct small { uint16 a; uint8 b; };")
    probes = []
    out = _ds(cs_d.big(bytes(range(32))), color=False, output="string")
    probes.append(("C19/colourless-dump-has-escape-codes", "dumpstruct(big(bytes(range(32))), color=False, output='string')", "\x1b" in out, "no escape codes", repr(out[:120])))
    out = _ds(cs_d.small, b"\x01\x02\x03TRAILING", color=False, output="string")
    probes.append(("C19/dumpstruct-shows-bytes-beyond-the-structure", "dumpstruct(small, b'\\x01\\x02\\x03TRAILING', color=False)", "TRAIL" in out or "54 52 41" in out, "a hex dump of 01 02 03 only", repr(out[:200])))
    try:
        out = _ds(cs_d.small(a=1, b=2), output="string")
        bad, shown = ("a" not in out), repr(out[:120])
    except Exception as e:  # noqa: BLE001
        bad, shown = True, f"{type(e).__name__}: {e}"
    probes.append(("C19/dumpstruct-of-an-instance-built-from-values", "dumpstruct(small(a=1, b=2), output='string')", bad, "a dump listing a and b", shown))
    for sig, op, bad, want, shown in probes:
        ds_n += 1
        if bad:
            ds_fail += 1
            run.report(sig, {"definition": "struct big { uint32 a; uint32 b; uint64 c; uint8 d[16]; }; struct small { uint16 a; uint8 b; };", "ops": [{"op": op, "observed": shown, "expected": want}]})

    # unexplained disagreements between model and implementation
    un = []
    for kind, c, o in mism:
        idx = (hd.index(c) if kind == "hexdump" else pk.index(c))
        if (kind, idx) not in explained:
            un.append((kind, c, o))
    if un:
        kind, c, o = un[0]
        run.violation({"kind": "correspondence", "theorem_or_correspondence": "corr_utils (Model.Hexdump / Model.Codec.u_pack,u_unpack,u_swap)",
                       "case": [kind, [x.hex() if isinstance(x, bytes) else x for x in c]], "observed": repr(o)[:600], "count": len(un)},
                      tag=f"corr-{kind}", no_input=True)
    if not ok and not explained and not un:
        pf = run.proof_failure
        run.violation({"kind": "obligation", "theorem_or_correspondence": pf.get("lemma"), **pf}, tag="obligation-" + str(pf.get("lemma")), no_input=True)

    cov = run.coverage
    cov["evaluations"] = len(all_cases) + ds_n
    cov["distinct_nontrivial"] = len({(d, repr(p), o, pre) for d, p, o, pre in hd if len(d) > 0}) + len({repr(c) for c in pk})
    cov["traces_validated_against_impl"] = len(all_cases) - len(mism)
    cov["exhaustive"] = True
    cov["rule"] = ("hexdump: EVERY data length 0..80 (and longer in thorough) x {no palette, empty palette, two random palettes with zero-length / row-crossing / "
                   "over-long entries} x offsets x prefixes, compared as exact strings with the model; pack/unpack/swap: boundary and random values for sizes "
                   "None,0,7,8,12,16,24,32,48,64,128 x all six endianness spellings; dumpstruct: generated structures (oracle only). "
                   "non-trivial = distinct non-empty dumps + distinct pack/unpack/swap calls")
    cov["distribution"] = {"hexdump_cases": len(hd), "with_palette": sum(1 for c in hd if c[1]), "pack_unpack_swap_cases": len(pk),
                           "impl_errors": sum(1 for o in pk_out if isinstance(o, Exception)), "dumpstruct_cases": ds_n,
                           "correspondence_mismatches": len(mism), "oracle_failures": len(explained) + len(helper_fail) + ds_fail}
    cov["samples"] = [{"data": hd[40][0].hex(), "palette": hd[43][1], "offset": hd[43][2], "prefix": hd[43][3], "out": str(hd_out[43])[:200]},
                      {"call": [str(x) for x in pk[5]], "out": repr(pk_out[5])}]
    run.assumptions += ["offsets >= 0; prefixes and palette strings are latin-1", "str.format / f-string number formatting (08x, 02x) as written in Model/Hexdump.v"]


# ---------------- dumpstruct (implementation-side oracle) ----------------
DUMP_DEFS = [
    ("struct s { uint8 a; uint16 b; char c[4]; };", bytes(range(1, 8))),
    ("struct s { uint32 magic; wchar name[3]; int24 x; };", bytes(range(0x41, 0x41 + 13))),
    ("struct s { uint8 a:4; uint8 b:4; uint16 c; };", b"\x21\x34\x12"),
    ("struct s { uint16 a:10; uint16 b:6; uint8 d[2]; };", b"\xff\x0f\x01\x02"),
    ("enum E : uint8 { A = 1, B = 2 }; struct s { E e; uint8 n; uint8 d[n]; };", b"\x02\x03abc"),
    ("struct s { uint8 n; char name[]; uint32 tail; };", b"\x01hi\x00\x01\x02\x03\x04"),
    ("struct s { struct { uint8 x; uint8 y; } p; uint16 z; };", b"\x01\x02\x03\x04"),
]


def dumpstruct_oracle(run: Run, rng: random.Random, thorough: bool):
    from dissect.cstruct import cstruct
    from dissect.cstruct.utils import dumpstruct, hexdump

    n = fail = 0
    for compiled in (True, False):
        for d, data in DUMP_DEFS:
            for color in (False, True):
                n += 1
                cs = cstruct()
                cs.load(d, compiled=compiled)
                obj = cs.s(data)
                try:
                    out = dumpstruct(obj, color=color, output="string")
                    plain = ANSI.sub("", out)
                    want_dump = hexdump(obj.dumps(), output="string")
                    problems = []
                    if want_dump not in plain:
                        problems.append("hex dump of the structure's bytes not shown")
                    for f in cs.s.__fields__:
                        if not re.search(rf"^- {re.escape(f._name)}: ", plain, flags=re.M):
                            problems.append(f"field {f._name} not listed")
                    # via the class + data form
                    out2 = dumpstruct(cs.s, data, color=color, output="string")
                    if hexdump(data, output="string") not in ANSI.sub("", out2):
                        problems.append("class form: dump of the data not shown")
                    # the running offset of the dump starts at the `offset` given (the hex dump itself is held to Model/Hexdump.v above);
                    # the printed form is the string form
                    for off in (0x1230, 7, rng.randrange(1, 1 << 24)):
                        for form, o3 in (("instance", dumpstruct(obj, offset=off, color=color, output="string")),
                                         ("class", dumpstruct(cs.s, data, offset=off, color=color, output="string"))):
                            if hexdump(obj.dumps() if form == "instance" else data, offset=off, output="string") not in ANSI.sub("", o3):
                                problems.append(f"{form} form, offset={off:#x}: the dump does not start at that offset: {ANSI.sub('', o3).strip().splitlines()[0]!r}")
                    import contextlib
                    import io
                    buf = io.StringIO()
                    with contextlib.redirect_stdout(buf):
                        dumpstruct(obj, offset=0x20, color=color, output="print")
                    if buf.getvalue().rstrip("\n") != dumpstruct(obj, offset=0x20, color=color, output="string").rstrip("\n"):
                        problems.append("the printed form differs from the string form")
                except Exception as e:  # noqa: BLE001
                    problems = [f"raises {type(e).__name__}: {e}"]
                if problems:
                    fail += 1
                    sig = "C19/dumpstruct/" + ("bitfield-colour" if (color and ":" in d) else "other")
                    run.report(sig, {"ops": [{"op": "dumpstruct", "definition": d, "data": data.hex(), "color": color, "compiled": compiled,
                                              "observed": problems, "expected": "hex dump of exactly the structure's bytes and one line per field"}]})
    return n, fail


def replay(rep: dict) -> int:
    bad = 0
    for op in rep.get("ops", []):
        if op["op"] == "hexdump":
            data = bytes.fromhex(op["data"])
            pal = None if op["palette"] is None else [tuple(p) for p in op["palette"]]
            out = impl_hexdump(data, pal, op["offset"], op["prefix"])
            r = oracle_hexdump(data, pal, op["offset"], op["prefix"], out)
            print("hexdump", op["data"][:40], "->", "FAILS" if r else "holds")
            bad += bool(r)
        elif op["op"] == "dumpstruct":
            from dissect.cstruct import cstruct
            from dissect.cstruct.utils import dumpstruct

            cs = cstruct()
            cs.load(op["definition"], compiled=op["compiled"])
            try:
                dumpstruct(cs.s(bytes.fromhex(op["data"])), color=op["color"], output="string")
                print("dumpstruct holds")
            except Exception as e:  # noqa: BLE001
                print("dumpstruct FAILS:", type(e).__name__, e)
                bad += 1
        else:
            print("re-run ./check C19 for", op)
    return 1 if bad else 0
