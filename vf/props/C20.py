"""C20 — generated type stubs are valid Python naming exactly the loaded definitions.

Proof:          coq/Props/C20.v (the declaration skeleton declares every user typedef once, under its name, and nothing else)
Tie:            class_names_match over the regenerated type table (hints print __name__)
Correspondence: the stub text parsed with `ast`, abstracted to the declaration skeleton, vs Model.Stubgen.stub_decls of the live typedef table
Oracle:         ast.parse succeeds; declared names == user-defined constants + typedef names, each reachable on the cstruct object; every structure
                field is annotated and its hint names the field's actual type (element type through Array[...] / Pointer[...]), declared or built in
PARTIAL:        Python's concrete syntax and typing semantics are validated (ast.parse), not modelled
"""
from __future__ import annotations

import ast
import random

from .. import structs
from ..common import Run, clist, cstr, run_shards
from . import _family as F

EXTRA = ["#define MAGIC 0x1234\n#define NAME \"hello\"\n#define NEG -5\n", "enum { ANON_A = 1, ANON_B };\n", "typedef uint8 arr_t[4];\n", "typedef uint32 *ptr_t;\n",
         "typedef struct _tagged { uint8 a; } tagged_t, tagged2_t;\n", "typedef struct { uint16 q; } untagged_t;\n", "typedef uint64 QW;\ntypedef QW QW2;\n",
         "flag FL : uint16 { FL_A = 1, FL_B = 2 };\n", "struct holder { struct inner_named { uint8 z; } inn; struct { uint8 y; } anon_in; struct inner_arr { uint8 v; } arr[2]; char name[8]; wchar w[2]; uint48 big; };\n",
         "typedef struct { uint16 px; uint16 py; } POINT, COORD, *PPOINT_UNUSED;\n".replace(", *PPOINT_UNUSED", ""),
         "union un { uint32 a; uint8 b[4]; };\n", "#define FLOAT 1.5\n#define TUP (1, 2)\n",
         "struct grid { struct { uint8 x; uint8 y; } cells[2][3]; union { uint8 lo; uint16 w; } cu[2][2]; struct cell_named { uint8 q; } named[3][1][2]; };\n",
         "struct pp { uint8 **argv; uint16 ***deep; char **names[2]; };\n", "typedef uint32 VEC[4];\nstruct pv { VEC *vec; VEC arr2[2]; };\n",
         "typedef uint32 C4[4];\ntypedef uint32 D4[4];\ntypedef uint8 *P8;\ntypedef uint8 *Q8;\n", "struct ga { uint8 a; };\nstruct gb { ga x[4]; ga *p; ga y; ga m[2][2]; };\n",
         "struct pa { struct { uint8 a; } *x; struct { uint8 b; } *parr[2]; union { uint8 c; uint16 d; } *u; };\n",
         "typedef struct { uint8 k; } tk_t, tk2_t;\nstruct uses_tk { tk2_t one; tk_t many[3]; tk2_t *ptr; };\n"]


def expected_hint_leaf(t):
    from dissect.cstruct.types import Array, CharArray, Pointer, WcharArray

    if issubclass(t, CharArray):
        return "CharArray"
    if issubclass(t, WcharArray):
        return "WcharArray"
    if issubclass(t, Pointer):
        return expected_hint_leaf(t.type)
    if issubclass(t, Array):
        return expected_hint_leaf(t.type)
    return t.__name__


def leaf_of_annotation(node) -> str:
    """the innermost type name of an annotation like cstruct.Array[cstruct.Pointer[cstruct.uint8]] | None"""
    if isinstance(node, ast.BinOp):            # X | None
        return leaf_of_annotation(node.left)
    if isinstance(node, ast.Subscript):
        return leaf_of_annotation(node.slice)
    if isinstance(node, ast.Attribute):
        return node.attr
    if isinstance(node, ast.Name):
        return node.id
    return ast.dump(node)


def check(run: Run) -> None:
    from dissect.cstruct import cstruct
    from dissect.cstruct.tools.stubgen import generate_cstruct_stub
    from dissect.cstruct.types import BaseArray, Enum, Flag, Pointer, Structure

    rng = random.Random(f"C20-{run.seed}")
    thorough = run.tier == "thorough"
    ok = run.prove("Props/C20.v")
    failures, n_oracle = 0, 0
    builtin_types = set(cstruct().typedefs)
    checks, meta = [], []
    for i in range(500 if thorough else 110):
        g = structs.Gen(rng, depth=2, unions=(i % 2 == 0), max_fields=5)
        text = "".join(rng.sample(EXTRA, rng.randrange(0, 5))) + g.build()
        try:
            cs = cstruct()
            cs.load(text)
        except Exception:  # noqa: BLE001
            continue
        n_oracle += 1
        probs = []
        try:
            stub = generate_cstruct_stub(cs)
        except Exception as e:  # noqa: BLE001
            failures += 1
            run.report("C20/generator-raises", {"definition": text, "ops": [{"op": "generate_cstruct_stub", "observed": f"{type(e).__name__}: {e}", "expected": "a stub"}]})
            continue
        try:
            tree = ast.parse(stub)
        except SyntaxError as e:
            failures += 1
            run.report("C20/syntax", {"definition": text, "ops": [{"op": "ast.parse(stub)", "observed": f"SyntaxError: {e.msg} at line {e.lineno}: {(e.text or '').strip()}", "expected": "valid Python", "stub": stub[:1500]}]})
            continue
        top = tree.body[0]
        declared, skeleton = [], []
        classes = {}
        for n in top.body:
            if isinstance(n, ast.AnnAssign) and isinstance(n.target, ast.Name):
                declared.append(n.target.id)
                ann = ast.unparse(n.annotation)
                if ann == "TypeAlias":
                    skeleton.append(("alias", n.target.id))
                else:
                    skeleton.append(("const", n.target.id))
            elif isinstance(n, ast.ClassDef):
                declared.append(n.name)
                classes[n.name] = n
                skeleton.append(("class", n.name))
            elif isinstance(n, ast.Expr):
                pass
            else:
                probs.append({"what": "unexpected statement in the stub", "observed": ast.unparse(n)[:100]})
        user_consts = [k for k in cs.consts if k not in cstruct().consts]
        user_types = [k for k in cs.typedefs if k not in builtin_types]
        want = user_consts + user_types
        if sorted(declared) != sorted(want):
            missing = sorted(set(want) - set(declared))
            extra = sorted(set(declared) - set(want))
            probs.append({"what": "declared names", "observed": f"missing {missing}, extra {extra}", "expected": "exactly the user-defined constants and type names"})
        for name in declared:
            try:
                getattr(cs, name)
            except AttributeError:
                probs.append({"what": "declared but not provided by the cstruct object", "observed": name})
        # structure fields
        def check_struct(T, node, path):
            anns = {x.target.id: x.annotation for x in node.body if isinstance(x, ast.AnnAssign) and isinstance(x.target, ast.Name)}
            inner = {x.name: x for x in node.body if isinstance(x, ast.ClassDef)}
            # a class nested in a structure's stub stands for a member type that exists only there (an anonymous or inline structure): a type the
            # cstruct object provides under its own name is referred to, not declared again
            member_types = set()
            for f0 in T.fields.values():
                b0 = f0.type
                while issubclass(b0, (BaseArray, Pointer)):
                    b0 = b0.type
                member_types.add(b0.__name__)
            for iname in inner:
                if iname in user_types or iname in builtin_types:
                    probs.append({"what": f"nested class {path}.{iname} re-declares a type the cstruct object provides at top level", "observed": iname})
                elif iname not in member_types:
                    probs.append({"what": f"nested class {path}.{iname} is not the type of any member", "observed": iname})
            for fname, f in T.fields.items():
                if fname not in anns:
                    probs.append({"what": f"field {path}.{fname} has no annotation"})
                    continue
                leaf = leaf_of_annotation(anns[fname])
                wantleaf = expected_hint_leaf(f.type)
                if leaf != wantleaf:
                    probs.append({"what": f"hint of {path}.{fname}", "observed": ast.unparse(anns[fname]), "expected": f"names {wantleaf}"})
                elif not (leaf in ("CharArray", "WcharArray") or leaf in builtin_types or leaf in declared or leaf in inner):
                    probs.append({"what": f"hint of {path}.{fname} names a type the stub does not declare", "observed": leaf})
                # nested inline classes are checked recursively
                base = f.type
                while issubclass(base, (BaseArray, Pointer)):
                    base = base.type
                if issubclass(base, Structure) and base.__name__ in inner:
                    check_struct(base, inner[base.__name__], f"{path}.{fname}")
        for name, node in classes.items():
            T = cs.resolve(name)
            if issubclass(T, Structure):
                check_struct(T, node, name)
            elif issubclass(T, (Enum, Flag)):
                members = [x.targets[0].id for x in node.body if isinstance(x, ast.Assign)]
                if members != list(T.__members__):
                    probs.append({"what": f"members of {name}", "observed": members, "expected": list(T.__members__)})
        if probs:
            failures += 1
            run.report("C20/" + probs[0]["what"].split(" ")[0], {"definition": text, "ops": [{"op": "generate_cstruct_stub", "problems": probs[:4], "stub": stub[:1200]}]})
        # model comparison of the declaration skeleton (typedef part)
        def kind(t):
            if issubclass(t, (Enum, Flag)):
                return "KdEnum"
            if issubclass(t, Structure):
                return "KdStruct"
            if issubclass(t, (BaseArray, Pointer)):
                return "KdArrayOrPointer"
            return "KdGeneric"

        tds = [f"mkTD {cstr(k)} {cstr(cs.typedefs[k].__name__)} {kind(cs.typedefs[k])}" for k in user_types if not isinstance(cs.typedefs[k], str)]
        if len(tds) == len(user_types):
            exp = [f"({cstr(n)}, {'true' if kd == 'class' else 'false'})" for kd, n in skeleton if kd != "const"]
            checks.append(f"list_eqb (fun a b => String.eqb (fst a) (fst b) && Bool.eqb (snd a) (snd b)) "
                          f"(map (fun d => (decl_name d, match d with DClass _ _ => true | _ => false end)) (stub_decls {clist((cstr(b) for b in sorted(builtin_types)), 'string')} {clist(tds, 'tdef')})) "
                          f"{clist(exp, '(string * bool)')}")
            meta.append(text)
    res, errs = run_shards("C20", ["Definition checks : list bool := [\n" + ";\n".join("  " + x for x in checks[i:i + 60]) + "\n]." for i in range(0, len(checks), 60)], "Model.Stubgen")
    for e in errs:
        run.violation({"kind": "correspondence", "theorem_or_correspondence": "corr_stub", "error": e[:800]}, tag="corr-shard-error", no_input=True)
    bad = [meta[k * 60 + i] for k, idx in enumerate(res) for i in idx]
    if bad and not failures:
        run.violation({"kind": "correspondence", "theorem_or_correspondence": "corr_stub (Model.Stubgen.stub_decls vs the parsed stub)", "definition": min(bad, key=len), "count": len(bad)},
                      tag="corr-stub", no_input=True)
    n_p, bad_p = reserved_name_probes(run, generate_cstruct_stub, cstruct)
    n_oracle += n_p
    failures += bad_p
    F.obligation_fallback(run, ok, bool(failures or bad))
    cov = run.coverage
    cov["evaluations"] = n_oracle + len(checks)
    cov["distinct_nontrivial"] = n_oracle
    cov["traces_validated_against_impl"] = len(checks) - len(bad)
    cov["rule"] = ("random definition sets (structs, unions, nested and anonymous members, enums, flags, arrays, pointers, bit fields) combined with constants of several literal "
                   "types, anonymous enums, typedefs of arrays / pointers / chains / tagged and untagged structs with several names; stub parsed with ast, abstracted to "
                   "its declaration skeleton and compared with Model.Stubgen; names, reachability, field hints and enum members judged by the oracle")
    cov["distribution"] = {"definition_sets": n_oracle, "skeleton_checks": len(checks), "skeleton_mismatches": len(bad), "oracle_failures": failures}
    cov["samples"] = [{"definition": m[:300]} for m in meta[:2]]
    run.assumptions += ["syntactic validity = accepted by CPython 3.12's ast.parse; typing semantics of the hints are not judged"]


def reserved_name_probes(run, generate_cstruct_stub, cstruct) -> tuple[int, int]:
    """C definitions whose names Python cannot use: the stub must still be Python that compiles (recorded findings when it is not)."""
    n, bad = 0, 0
    probes = [("C20/python-reserved-name", "struct S { uint8 in; uint8 from; };"), ("C20/python-reserved-name", "enum E : uint8 { None = 0, True = 1 };"),
              ("C20/python-reserved-name", "#define pass 1\nstruct class { uint8 a; };"), ("C20/python-reserved-name", "struct S { uint8 self; uint8 b; };"),
              ("C20/non-identifier-constant", "#define MAX(a,b) a+b\nstruct S { uint8 a; };"),
              ("C20/syntax", "struct S { uint8 _in; uint8 From; uint8 selfish; };"), ("C20/syntax", "#define MAXAB 3\nstruct S { uint8 a[MAXAB]; };")]
    for sig, text in probes:
        n += 1
        try:
            cs = cstruct()
            cs.load(text)
            stub = generate_cstruct_stub(cs)
            compile(ast.parse(stub), "<stub>", "exec")
        except SyntaxError as e:
            bad += 1
            run.report(sig, {"definition": text, "ops": [{"op": "compile(ast.parse(stub))", "observed": f"SyntaxError: {e.msg}: {(e.text or '').strip()}", "expected": "Python that compiles"}]})
        except Exception as e:  # noqa: BLE001
            bad += 1
            run.report("C20/generator-raises", {"definition": text, "ops": [{"op": "load + generate_cstruct_stub", "observed": f"{type(e).__name__}: {e}", "expected": "a stub"}]})
    return n, bad


def replay(rep: dict) -> int:
    from dissect.cstruct import cstruct
    from dissect.cstruct.tools.stubgen import generate_cstruct_stub

    cs = cstruct()
    cs.load(rep["definition"])
    try:
        ast.parse(generate_cstruct_stub(cs))
        print("stub parses; re-run ./check C20 for the naming checks")
        return 0
    except SyntaxError as e:
        print("SyntaxError", e)
        return 1
