"""Helpers shared by the structure-level property modules."""
from __future__ import annotations

import random

from .. import structs
from ..common import Run
from ..structcorr import Case


def random_data(rng: random.Random, n: int | None = None) -> bytes:
    n = rng.choice([0, 1, 3, 8, 16, 24, 40, 64, 96]) if n is None else n
    k = rng.random()
    if k < 0.45:
        return rng.randbytes(n)
    if k < 0.8:
        return bytes(rng.choice([0, 0, 0, 1, 2, 3, 4, 255]) for _ in range(n))
    if k < 0.93:
        return bytes(rng.choice([0, 1, 2, 65, 66, 0x7F]) for _ in range(n))     # small counts, ASCII, valid UTF-16
    return bytes(rng.choice([0x40, 0x3F, 0x80, 0xC0, 0x7F, 0xFF, 0, 1]) for _ in range(n))  # LEB128 group boundaries (-64, 63, continuation bytes), sign bits


def gen_case(rng: random.Random, **opts) -> Case:
    modes = opts.pop("modes", None)
    g = structs.Gen(rng, **opts)
    text = g.build()
    compiled, align = rng.choice(modes) if modes else (rng.random() < 0.5, rng.random() < 0.35)
    return Case(text, endian=rng.choice(["<", ">", "<", ">", "!"]), pointer=rng.choice([None, None, None, "uint32", "uint16"]),
                compiled=compiled, align=align)


def obligation_fallback(run: Run, ok: bool, anything_found: bool) -> None:
    if not ok and not anything_found:
        pf = run.proof_failure
        run.violation({"kind": "obligation", "theorem_or_correspondence": pf.get("lemma"), **pf}, tag="obligation-" + str(pf.get("lemma")), no_input=True)
    elif not ok:
        run.notes.append(f"proof obligation failed: {run.proof_failure.get('lemma')} in {run.proof_failure.get('file')}")


def finish_cov(run: Run, items, mism, rule: str, dist: dict, exhaustive: bool = False) -> None:
    live = [it for it in items if it.expr]
    cov = run.coverage
    cov["evaluations"] = len(live) + dist.get("oracle_only_checks", 0)
    cov["distinct_nontrivial"] = len({(it.case.text, it.case.endian, it.case.align, it.case.compiled, repr(it.op)[:80]) for it in live if it.case.text})
    cov["traces_validated_against_impl"] = len(live) - len(mism)
    cov["exhaustive"] = exhaustive
    cov["rule"] = rule
    cov["distribution"] = {**dist, "skipped_items": sum(1 for it in items if not it.expr), "correspondence_mismatches": len(mism)}
    cov["samples"] = [{"definition": it.case.text[-160:], "endian": it.case.endian, "compiled": it.case.compiled, "align": it.case.align,
                       "op": [x.hex()[:48] if isinstance(x, bytes) else x for x in it.op]} for it in live[:2] + live[-2:]]


def replay_case(rep: dict) -> Case:
    return Case(rep["definition"], align=rep["load_kwargs"]["align"], compiled=rep["load_kwargs"]["compiled"],
                endian=rep["cstruct_kwargs"]["endian"], pointer=rep["cstruct_kwargs"]["pointer"],
                history=[tuple(h) for h in rep.get("history", [])])


def default_sharing_problems() -> list[dict]:
    """Deterministic histories on default-constructed instances: instances never share mutable members, also when the type was
    instantiated before it was extended, and for forwarded members of anonymous nested structures."""
    from dissect.cstruct import cstruct

    probs = []
    for compiled in (False, True):
        # 1. instantiate a scalar-only structure, extend it with an array and a nested structure, then default-construct twice
        cs = cstruct()
        cs.load("struct in { uint8 x; uint16 y; }; struct main { uint8 a; uint8 b; };", compiled=compiled)
        T = cs.main
        T()
        T(b"\x01\x02")
        T.add_field("arr", cs.uint16[3])
        T.add_field("n", cs.resolve("in"))
        a, b = T(), T()
        a.arr[1] = 0x1234
        a.n.y = 9
        c = T()
        if list(b.arr) != [0, 0, 0] or b.n.y != 0 or list(c.arr) != [0, 0, 0] or c.n.y != 0 or c.dumps() != bytes(len(c.dumps())):
            probs.append({"what": "instances constructed after add_field share their default array / nested structure", "compiled": compiled,
                          "history": ["main()", "main(b'\\x01\\x02')", "add_field(arr, uint16[3])", "add_field(n, in)", "a = main(); b = main()", "a.arr[1] = 0x1234; a.n.y = 9", "c = main()"],
                          "observed": repr((list(b.arr), b.n.y, list(c.arr), c.n.y)), "expected": "([0, 0, 0], 0, [0, 0, 0], 0)"})
        # 2. forwarded members of an anonymous nested structure
        cs = cstruct()
        cs.load("struct main { uint8 a; struct { uint8 x; uint16 y[2]; }; uint8 t; };", compiled=compiled)
        a = cs.main()
        a.x = 127
        a.y[1] = 5
        b = cs.main()
        p = cs.main(a=3)
        if b.x != 0 or list(b.y) != [0, 0] or p.x != 0 or list(p.y) != [0, 0]:
            probs.append({"what": "default of an anonymous nested structure is shared between instances", "compiled": compiled,
                          "history": ["a = main()", "a.x = 127; a.y[1] = 5", "b = main(); p = main(a=3)"], "observed": repr((b.x, list(b.y), p.x, list(p.y))), "expected": "(0, [0, 0], 0, [0, 0])"})
        # 3. a structure with an array, instantiated, extended by a batch, instantiated again
        cs = cstruct()
        cs.load("struct main { uint8 k; uint8 v[2]; };", compiled=compiled)
        T = cs.main
        x = T()
        x.v[0] = 1
        with T.start_update():
            T.add_field("w", cs.uint8[2])
        a, b = T(), T()
        a.w[0] = 7
        a.v[1] = 8
        if list(b.w) != [0, 0] or list(b.v) != [0, 0] or list(T().w) != [0, 0]:
            probs.append({"what": "instances constructed after a batch extension share their default arrays", "compiled": compiled,
                          "history": ["x = main(); x.v[0] = 1", "start_update: add_field(w, uint8[2])", "a = main(); b = main()", "a.w[0] = 7; a.v[1] = 8"],
                          "observed": repr((list(b.w), list(b.v))), "expected": "([0, 0], [0, 0])"})
    return probs
