"""Helpers shared by the structure-level property modules."""
from __future__ import annotations

import random

from .. import structs
from ..common import Run
from ..structcorr import Case


def random_data(rng: random.Random, n: int | None = None) -> bytes:
    n = rng.choice([0, 1, 3, 8, 16, 24, 40, 64, 96]) if n is None else n
    k = rng.random()
    if k < 0.45:
        return rng.randbytes(n)
    if k < 0.8:
        return bytes(rng.choice([0, 0, 0, 1, 2, 3, 4, 255]) for _ in range(n))
    return bytes(rng.choice([0, 1, 2, 65, 66, 0x7F]) for _ in range(n))     # small counts, ASCII, valid UTF-16


def gen_case(rng: random.Random, **opts) -> Case:
    modes = opts.pop("modes", None)
    g = structs.Gen(rng, **opts)
    text = g.build()
    compiled, align = rng.choice(modes) if modes else (rng.random() < 0.5, rng.random() < 0.35)
    return Case(text, endian=rng.choice(["<", ">", "<", ">", "!"]), pointer=rng.choice([None, None, None, "uint32", "uint16"]),
                compiled=compiled, align=align)


def obligation_fallback(run: Run, ok: bool, anything_found: bool) -> None:
    if not ok and not anything_found:
        pf = run.proof_failure
        run.violation({"kind": "obligation", "theorem_or_correspondence": pf.get("lemma"), **pf}, tag="obligation-" + str(pf.get("lemma")), no_input=True)
    elif not ok:
        run.notes.append(f"proof obligation failed: {run.proof_failure.get('lemma')} in {run.proof_failure.get('file')}")


def finish_cov(run: Run, items, mism, rule: str, dist: dict, exhaustive: bool = False) -> None:
    live = [it for it in items if it.expr]
    cov = run.coverage
    cov["evaluations"] = len(live) + dist.get("oracle_only_checks", 0)
    cov["distinct_nontrivial"] = len({(it.case.text, it.case.endian, it.case.align, it.case.compiled, repr(it.op)[:80]) for it in live if it.case.text})
    cov["traces_validated_against_impl"] = len(live) - len(mism)
    cov["exhaustive"] = exhaustive
    cov["rule"] = rule
    cov["distribution"] = {**dist, "skipped_items": sum(1 for it in items if not it.expr), "correspondence_mismatches": len(mism)}
    cov["samples"] = [{"definition": it.case.text[-160:], "endian": it.case.endian, "compiled": it.case.compiled, "align": it.case.align,
                       "op": [x.hex()[:48] if isinstance(x, bytes) else x for x in it.op]} for it in live[:2] + live[-2:]]


def replay_case(rep: dict) -> Case:
    return Case(rep["definition"], align=rep["load_kwargs"]["align"], compiled=rep["load_kwargs"]["compiled"],
                endian=rep["cstruct_kwargs"]["endian"], pointer=rep["cstruct_kwargs"]["pointer"],
                history=[tuple(h) for h in rep.get("history", [])])
