"""Helpers shared by the structure-level property modules."""
from __future__ import annotations

import random

from .. import structs
from ..common import Run
from ..structcorr import Case


def random_data(rng: random.Random, n: int | None = None) -> bytes:
    n = rng.choice([0, 1, 3, 8, 16, 24, 40, 64, 96]) if n is None else n
    k = rng.random()
    if k < 0.45:
        return rng.randbytes(n)
    if k < 0.8:
        return bytes(rng.choice([0, 0, 0, 1, 2, 3, 4, 255]) for _ in range(n))
    if k < 0.93:
        return bytes(rng.choice([0, 1, 2, 65, 66, 0x7F]) for _ in range(n))     # small counts, ASCII, valid UTF-16
    return bytes(rng.choice([0x40, 0x3F, 0x80, 0xC0, 0x7F, 0xFF, 0, 1]) for _ in range(n))  # LEB128 group boundaries (-64, 63, continuation bytes), sign bits


def gen_case(rng: random.Random, **opts) -> Case:
    modes = opts.pop("modes", None)
    g = structs.Gen(rng, **opts)
    text = g.build()
    compiled, align = rng.choice(modes) if modes else (rng.random() < 0.5, rng.random() < 0.35)
    return Case(text, endian=rng.choice(["<", ">", "<", ">", "!"]), pointer=rng.choice([None, None, None, "uint32", "uint16"]),
                compiled=compiled, align=align)


def obligation_fallback(run: Run, ok: bool, anything_found: bool) -> None:
    if not ok and not anything_found:
        pf = run.proof_failure
        run.violation({"kind": "obligation", "theorem_or_correspondence": pf.get("lemma"), **pf}, tag="obligation-" + str(pf.get("lemma")), no_input=True)
    elif not ok:
        run.notes.append(f"proof obligation failed: {run.proof_failure.get('lemma')} in {run.proof_failure.get('file')}")


def finish_cov(run: Run, items, mism, rule: str, dist: dict, exhaustive: bool = False) -> None:
    live = [it for it in items if it.expr]
    cov = run.coverage
    cov["evaluations"] = len(live) + dist.get("oracle_only_checks", 0)
    cov["distinct_nontrivial"] = len({(it.case.text, it.case.endian, it.case.align, it.case.compiled, repr(it.op)[:80]) for it in live if it.case.text})
    cov["traces_validated_against_impl"] = len(live) - len(mism)
    cov["exhaustive"] = exhaustive
    cov["rule"] = rule
    cov["distribution"] = {**dist, "skipped_items": sum(1 for it in items if not it.expr), "correspondence_mismatches": len(mism)}
    cov["samples"] = [{"definition": it.case.text[-160:], "endian": it.case.endian, "compiled": it.case.compiled, "align": it.case.align,
                       "op": [x.hex()[:48] if isinstance(x, bytes) else x for x in it.op]} for it in live[:2] + live[-2:]]


def replay_case(rep: dict) -> Case:
    return Case(rep["definition"], align=rep["load_kwargs"]["align"], compiled=rep["load_kwargs"]["compiled"],
                endian=rep["cstruct_kwargs"]["endian"], pointer=rep["cstruct_kwargs"]["pointer"],
                history=[tuple(h) for h in rep.get("history", [])])


def default_sharing_problems() -> list[dict]:
    """Deterministic histories on default-constructed instances: instances never share mutable members, also when the type was
    instantiated before it was extended, and for forwarded members of anonymous nested structures."""
    from dissect.cstruct import cstruct

    probs = []
    for compiled in (False, True):
        # 1. instantiate a scalar-only structure, extend it with an array and a nested structure, then default-construct twice
        cs = cstruct()
        cs.load("struct in { uint8 x; uint16 y; }; struct main { uint8 a; uint8 b; };", compiled=compiled)
        T = cs.main
        T()
        T(b"\x01\x02")
        T.add_field("arr", cs.uint16[3])
        T.add_field("n", cs.resolve("in"))
        a, b = T(), T()
        a.arr[1] = 0x1234
        a.n.y = 9
        c = T()
        if list(b.arr) != [0, 0, 0] or b.n.y != 0 or list(c.arr) != [0, 0, 0] or c.n.y != 0 or c.dumps() != bytes(len(c.dumps())):
            probs.append({"what": "instances constructed after add_field share their default array / nested structure", "compiled": compiled,
                          "history": ["main()", "main(b'\\x01\\x02')", "add_field(arr, uint16[3])", "add_field(n, in)", "a = main(); b = main()", "a.arr[1] = 0x1234; a.n.y = 9", "c = main()"],
                          "observed": repr((list(b.arr), b.n.y, list(c.arr), c.n.y)), "expected": "([0, 0, 0], 0, [0, 0, 0], 0)"})
        # 2. forwarded members of an anonymous nested structure
        cs = cstruct()
        cs.load("struct main { uint8 a; struct { uint8 x; uint16 y[2]; }; uint8 t; };", compiled=compiled)
        a = cs.main()
        a.x = 127
        a.y[1] = 5
        b = cs.main()
        p = cs.main(a=3)
        if b.x != 0 or list(b.y) != [0, 0] or p.x != 0 or list(p.y) != [0, 0]:
            probs.append({"what": "default of an anonymous nested structure is shared between instances", "compiled": compiled,
                          "history": ["a = main()", "a.x = 127; a.y[1] = 5", "b = main(); p = main(a=3)"], "observed": repr((b.x, list(b.y), p.x, list(p.y))), "expected": "(0, [0, 0], 0, [0, 0])"})
        # 3. a structure with an array, instantiated, extended by a batch, instantiated again
        cs = cstruct()
        cs.load("struct main { uint8 k; uint8 v[2]; };", compiled=compiled)
        T = cs.main
        x = T()
        x.v[0] = 1
        with T.start_update():
            T.add_field("w", cs.uint8[2])
        a, b = T(), T()
        a.w[0] = 7
        a.v[1] = 8
        if list(b.w) != [0, 0] or list(b.v) != [0, 0] or list(T().w) != [0, 0]:
            probs.append({"what": "instances constructed after a batch extension share their default arrays", "compiled": compiled,
                          "history": ["x = main(); x.v[0] = 1", "start_update: add_field(w, uint8[2])", "a = main(); b = main()", "a.w[0] = 7; a.v[1] = 8"],
                          "observed": repr((list(b.w), list(b.v))), "expected": "([0, 0], [0, 0])"})
    return probs


def misaligned_embedded(T, seen=None) -> bool:
    """an ALIGNED structure embedded (directly or as array element) in a PACKED structure at an offset that is not a multiple of its alignment"""
    from dissect.cstruct.types import BaseArray, Structure

    seen = seen if seen is not None else set()
    if id(T) in seen or not (isinstance(T, type) and issubclass(T, Structure)):
        return False
    seen.add(id(T))
    for f in T.__fields__:
        t = f.type
        while isinstance(t, type) and issubclass(t, BaseArray):
            t = t.type
        if isinstance(t, type) and issubclass(t, Structure):
            if getattr(t, "__align__", False) and not getattr(T, "__align__", False) and f.offset is not None and f.offset % (t.alignment or 1):
                return True
            if misaligned_embedded(t, seen):
                return True
    return False


# mixed alignment modes on one cstruct object: a helper type loaded in one mode, `main` - which embeds it at an odd offset - in the other
MIXED_INNERS = ["struct N { uint8 n; char s[n]; uint32 v; };", "struct N { uint8 n; uint16 a[n]; uint64 v; uint8 t; };", "struct N { uint8 a; uint32 b; };",
                "struct N { char s[]; uint16 v; uint8 w; };", "struct N { uint8 n; uint8 d[n]; int24 v; uint16 f : 5; uint16 g : 11; };",
                "struct N { uint16 a; uint64 b; uint8 c; };"]
MIXED_MAINS = ["struct main { uint8 tag; N i; uint16 end; };", "struct main { uint8 tag; N i[2]; uint8 end; };", "struct main { uint8 t0; uint16 t1; N i; };"]


def mixed_mode_cases(rng: random.Random, static_only: bool = False) -> list[Case]:
    out = []
    for inner in MIXED_INNERS:
        if static_only and ("[n]" in inner or "[]" in inner):
            continue
        for mn in MIXED_MAINS:
            for pa in (True, False):
                c = Case(inner, endian=rng.choice(["<", ">"]), align=pa, compiled=rng.random() < 0.5, history=[("load_align", mn, not pa)])
                c._datas = [bytes([rng.randrange(256), rng.randrange(6)]) + bytes(rng.choice([0, 1, 2, 65, 66, 200]) for _ in range(46)) for _ in range(2)] + \
                           [bytes([7, 0, k, 65, 0, 66]) + rng.randbytes(42) for k in range(4)]
                c._mixed = True
                out.append(c)
    return out


def is_mixed(c: Case) -> bool:
    return any(h[0] == "load_align" and h[2] != c.align for h in c.history)

