"""Deterministic line-granularity thread scheduler (sys.settrace) for the concurrency property.

Threads run library code one source line at a time; a schedule decides which thread may execute its next line.
Only lines inside /repo/dissect/ and inside generated readers ("<compiled ...>") are scheduling points."""
from __future__ import annotations

import sys
import threading

from .common import REPO

PREFIX = str(REPO / "dissect")


def traced(filename: str) -> bool:
    return filename.startswith(PREFIX) or filename.startswith("<compiled")


class Scheduler:
    """schedule: iterable of thread indices; once exhausted (or when the scheduled thread has finished) threads run freely."""

    def __init__(self, schedule):
        self.schedule = list(schedule)
        self.i = 0
        self.cv = threading.Condition()
        self.finished: set[int] = set()
        self.steps = {}

    def _skip_finished(self):
        while self.i < len(self.schedule) and self.schedule[self.i] in self.finished:
            self.i += 1

    def step(self, tid: int):
        with self.cv:
            self.steps[tid] = self.steps.get(tid, 0) + 1
            while True:
                self._skip_finished()
                if self.i >= len(self.schedule) or self.schedule[self.i] == tid:
                    break
                if not self.cv.wait(timeout=5.0):
                    raise RuntimeError("scheduler stalled")
            if self.i < len(self.schedule):
                self.i += 1
            self.cv.notify_all()

    def finish(self, tid: int):
        with self.cv:
            self.finished.add(tid)
            self.cv.notify_all()

    def tracer(self, tid: int):
        def local(frame, event, arg):
            if event == "line":
                self.step(tid)
            return local

        def glob(frame, event, arg):
            if event == "call" and traced(frame.f_code.co_filename):
                return local
            return None

        return glob


def run_threads(jobs, schedule):
    """jobs: list of zero-argument callables. Returns (results, steps per thread); an exception is returned as ('err', type name)."""
    sched = Scheduler(schedule)
    results = [None] * len(jobs)

    def worker(tid, job):
        sys.settrace(sched.tracer(tid))
        try:
            results[tid] = ("ok", job())
        except BaseException as e:  # noqa: BLE001
            results[tid] = ("err", type(e).__name__ + ": " + str(e)[:80])
        finally:
            sys.settrace(None)
            sched.finish(tid)

    threads = [threading.Thread(target=worker, args=(i, j)) for i, j in enumerate(jobs)]
    for t in threads:
        t.start()
    for t in threads:
        t.join(timeout=30)
    return results, dict(sched.steps)
