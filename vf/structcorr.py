"""Correspondence engine for the structure-level properties: turns (definition, configuration, operations)
cases into Coq boolean checks over Model.Reader / Model.Writer / Model.Layout and reports disagreements."""
from __future__ import annotations

import io
from dataclasses import dataclass, field as dfield

from . import canon, structs
from .common import Run, clist, coq_eval, copt, cz, run_shards

IMPORTS = "Model.Writer"


@dataclass
class Case:
    text: str
    tname: str = "main"
    endian: str = "<"
    pointer: str | None = None
    align: bool = False
    compiled: bool = False
    ops: list = dfield(default_factory=list)     # ("parse", data, pos) | ("dump", data, pos) | ("layout",)
    tag: str = ""
    history: list = dfield(default_factory=list)  # extra steps after loading `text`:
    #   ("load", text) | ("load_align", text, align) | ("set_endian", e) | ("warm", hex data) | ("array", type name, n) | ("add_field", type name, field name, field type name, bits[, offset])

    def load(self):
        cs = structs.load(self.text, endian=self.endian, pointer=self.pointer, compiled=self.compiled, align=self.align)
        for h in self.history:
            if h[0] == "load":
                cs.load(h[1], compiled=self.compiled, align=self.align)
            elif h[0] == "load_align":      # a further definition loaded with its own alignment mode (mixed modes on one cstruct object)
                cs.load(h[1], compiled=self.compiled, align=h[2])
            elif h[0] == "set_endian":      # cs.endian reassigned after the definitions were loaded
                cs.endian = h[1]
            elif h[0] == "warm":            # one parse of `tname` before the following steps (caches filled under the configuration so far)
                try:
                    cs.resolve(self.tname)(bytes.fromhex(h[1]))
                except Exception:  # noqa: BLE001
                    pass
            elif h[0] == "array":
                _ = cs.resolve(h[1])[h[2]]
            elif h[0] == "set_pointer":
                cs.pointer = cs.resolve(h[1])
            elif h[0] == "add_field":
                off = h[5] if len(h) > 5 else None      # an offset given to add_field (the parser never gives one)
                cs.resolve(h[1]).add_field(h[2], cs.resolve(h[3]), bits=h[4], offset=off)
                if off is not None:
                    given = cs.__dict__.setdefault("_vf_given", {})
                    given[id(cs.resolve(h[1]).__fields__[-1])] = off
            else:
                raise ValueError(h)
        return cs

    def describe(self) -> dict:
        return {"definition": self.text, "history": self.history, "type": self.tname, "cstruct_kwargs": {"endian": self.endian, "pointer": self.pointer},
                "load_kwargs": {"compiled": self.compiled, "align": self.align}}


@dataclass
class Item:
    case: Case
    op: tuple
    expr: str | None           # Coq bool expression, None = skipped
    model_expr: str | None     # the model side alone (for probing)
    impl: object               # what the implementation did (python form)
    skipped: str = ""


def layout_of(T):
    from dissect.cstruct.types import Structure

    offs = [f.offset for f in T.__fields__] if issubclass(T, Structure) else []
    return (offs, T.size, T.alignment or 0)


def build_items(case: Case) -> list[Item]:
    items: list[Item] = []
    try:
        cs = case.load()
        T = cs.resolve(case.tname)
    except Exception as e:  # noqa: BLE001 - a definition the library rejects
        for op in case.ops or [("load",)]:
            items.append(Item(case, op, None, None, ("loaderr", e), skipped=f"load: {type(e).__name__}"))
        return items
    cfg = structs.cfg_term(cs, case.text)
    ty = structs.ty_term(T, cs.__dict__.get("_vf_given"))
    case._cs, case._T = cs, T
    for op in case.ops:
        try:
            if op[0] == "parse":
                r = structs.parse(cs, case.tname, op[1], op[2])
                m = f"(read_top {cfg} {ty} {canon.cbytes(op[1])} {cz(op[2])})"
                cmpf = f"rvz_eqb_compiled {cz(len(op[1]))}" if case.compiled else "rvz_eqb"
                items.append(Item(case, op, f"{cmpf} {m} {structs.read_result_term(r, T)}", m, r))
            elif op[0] == "dump":
                r = structs.parse(cs, case.tname, op[1], op[2])
                if r[0] != "ok":
                    items.append(Item(case, op, None, None, r, skipped="parse failed"))
                    continue
                try:
                    d = r[1].dumps()
                    exp = f"(Ok {canon.cbytes(d)})"
                except Exception as e:  # noqa: BLE001
                    d = e
                    exp = canon.cerr(e)
                m = f"(dumps {cfg} {ty} {structs.value_term(r[1], T)})"
                items.append(Item(case, op, f"rb_eqb {m} {exp}", m, ("dump", r, d)))
            elif op[0] == "mutdump":
                # parse, change the element count of one array field, dump: ("mutdump", data, pos, field, "drop" | "dup")
                r = structs.parse(cs, case.tname, op[1], op[2])
                if r[0] != "ok":
                    items.append(Item(case, op, None, None, r, skipped="parse failed"))
                    continue
                v = r[1]
                cur = getattr(v, op[3])
                if op[4] == "drop":
                    if len(cur) == 0:
                        items.append(Item(case, op, None, None, r, skipped="empty"))
                        continue
                    new = cur[:-1]
                else:
                    new = cur + cur[-1:] if len(cur) else cur
                    if len(cur) == 0:
                        items.append(Item(case, op, None, None, r, skipped="empty"))
                        continue
                setattr(v, op[3], bytes(new) if isinstance(cur, bytes) else (str(new) if isinstance(cur, str) else list(new)))
                try:
                    d = v.dumps()
                    exp = f"(Ok {canon.cbytes(d)})"
                except Exception as e:  # noqa: BLE001
                    d = e
                    exp = canon.cerr(e)
                m = f"(dumps {cfg} {ty} {structs.value_term(v, T)})"
                items.append(Item(case, op, f"rb_eqb {m} {exp}", m, ("mutdump", d)))
            elif op[0] == "assign":
                # ("assign", data, pos, field index, seed): parse, assign one field a fresh value, dump
                import random as _random

                r = structs.parse(cs, case.tname, op[1], op[2])
                if r[0] != "ok":
                    items.append(Item(case, op, None, None, r, skipped="parse failed"))
                    continue
                v = r[1]
                f = T.__fields__[op[3]]
                try:
                    if f.bits:
                        from dissect.cstruct.types import Enum as _E, Flag as _F
                        nb = _random.Random(op[4]).randrange(0, 1 << f.bits)
                        nv = f.type(nb) if issubclass(f.type, (_E, _F)) else nb
                    else:
                        nv = structs.gen_py(f.type, _random.Random(op[4]))
                except NotImplementedError as e:
                    items.append(Item(case, op, None, None, None, skipped=str(e)))
                    continue
                try:
                    before = v.dumps()
                    setattr(v, f._name, nv)
                    d = v.dumps()
                    exp = f"(Ok {canon.cbytes(d)})"
                except Exception as e:  # noqa: BLE001
                    before, d = None, e
                    exp = canon.cerr(e)
                m = f"(dumps {cfg} {ty} {structs.value_term(v, T)})"
                items.append(Item(case, op, f"rb_eqb {m} {exp}", m, ("assign", f, before, d)))
            elif op[0] == "construct":
                # ("construct", seed, overflow): build a value directly (structs.gen_py), dump it
                import random as _random

                flag = [bool(op[2])]
                try:
                    v = structs.gen_py(T, _random.Random(op[1]), flag)
                    if op[2] and flag[0]:
                        raise NotImplementedError("no integer field to overflow")
                except NotImplementedError as e:
                    items.append(Item(case, op, None, None, None, skipped=str(e)))
                    continue
                try:
                    d = v.dumps()
                    exp = f"(Ok {canon.cbytes(d)})"
                except Exception as e:  # noqa: BLE001
                    d = e
                    exp = canon.cerr(e)
                m = f"(dumps {cfg} {ty} {structs.value_term(v, T)})"
                items.append(Item(case, op, f"rb_eqb {m} {exp}", m, ("construct", v, d)))
            elif op[0] == "plan":
                # the generated source of the compiled reader, parsed into instructions, against the model of the generator (Model/Compiler.v)
                from . import plansrc

                m = f"(compile_ty {cfg} {ty})"
                if getattr(T, "__compiled__", False):
                    try:
                        pl = plansrc.parse_source(T._read.__func__.__source__)
                    except plansrc.PlanSyntax as e:
                        items.append(Item(case, op, "false", m, ("plan-syntax", str(e))))
                        continue
                    items.append(Item(case, op, f"plan_eqb {m} (Ok {plansrc.plan_term(pl)})", m, ("plan", pl)))
                else:
                    items.append(Item(case, op, f"plan_eqb {m} (Err EType)", m, ("plan", "not compiled")))
            elif op[0] == "parse_plan":
                # the implementation's reader against the model of the generated statements (run_plan over the model's plan)
                r = structs.parse(cs, case.tname, op[1], op[2])
                m = f"(read_compiled_top {cfg} {ty} {canon.cbytes(op[1])} {cz(op[2])})"
                items.append(Item(case, op, f"rvz_eqb_coarse {m} {structs.read_result_term(r, T)}", m, r))
            elif op[0] == "layout":
                offs, size, al = layout_of(T)
                exp = f"(Ok (mkLay {clist((copt(o, cz) for o in offs), '(option Z)')} {copt(size, cz)} {cz(al)}))"
                m = f"(type_layout {cfg} {ty})"
                items.append(Item(case, op, f"lay_eqb {m} {exp}", m, ("layout", offs, size, al)))
            else:
                raise ValueError(op)
        except structs.HasNaN:
            items.append(Item(case, op, None, None, None, skipped="NaN in value"))
    return items


def run_items(run: Run, items: list[Item], per: int = 120, label: str = "corr_struct", imports: str = IMPORTS) -> list[Item]:
    """Evaluate all item expressions in coqc; returns the disagreeing items."""
    live = [it for it in items if it.expr is not None]
    shards = ["Definition checks : list bool := [\n" + ";\n".join("  " + it.expr for it in live[i:i + per]) + "\n]."
              for i in range(0, len(live), per)]
    res, errs = run_shards(run.prop, shards, imports, timeout=900)
    for e in errs:
        run.violation({"kind": "correspondence", "theorem_or_correspondence": label, "error": e[:1500]}, tag="corr-shard-error", no_input=True)
    return [live[k * per + i] for k, idx in enumerate(res) for i in idx]


def probe(run: Run, it: Item, imports: str = IMPORTS) -> str:
    out = coq_eval(run.prop, imports, f"Eval vm_compute in {it.model_expr}.\n")
    return out.strip()[-1500:]


def impl_str(x) -> str:
    if isinstance(x, tuple) and x and x[0] == "ok":
        return f"value at pos {x[2]}"
    return repr(x)[:300]


def report_unexplained(run: Run, mism: list[Item], explained: set, label: str, imports: str = IMPORTS) -> None:
    un = [it for it in mism if id(it) not in explained]
    if not un:
        return
    it = min(un, key=lambda i: len(i.case.text) + sum(len(o[1]) for o in [i.op] if len(o) > 1 and isinstance(o[1], bytes)))
    run.violation({"kind": "correspondence", "theorem_or_correspondence": label, **it.case.describe(),
                   "op": [x.hex() if isinstance(x, bytes) else x for x in it.op], "implementation": impl_str(it.impl),
                   "model": probe(run, it, imports), "count": len(un)},
                  tag="corr-" + str(abs(hash((it.case.text, repr(it.op)))) % 10 ** 8), no_input=True)
