"""Shared machinery for the structure-level properties: random definition generator, live class -> Coq `ty`,
type-directed value canonicalisation, implementation runners."""
from __future__ import annotations

import io
import os
import math
import random
import re

from . import canon
from .common import cbool, clist, cnat, copt, cpair, cstr, cz

INT_TYPES = ["int8", "uint8", "int16", "uint16", "int32", "uint32", "int64", "uint64", "int24", "uint24", "int48", "uint48", "int128", "uint128"]
ALIAS_INTS = ["BYTE", "WORD", "DWORD", "QWORD", "LONG", "ULONG", "SHORT", "unsigned int", "long long", "unsigned short", "u2", "__u32", "uint8_t", "int64_t"]
FLOAT_TYPES = ["float16", "float", "double"]
SMALL_UINTS = ["uint8", "uint16", "uint32", "BYTE", "WORD"]
RESERVED = {"self", "dumps", "write", "size", "fields", "lookup", "cs", "type", "read", "reads", "alignment", "dynamic", "name", "value"}


# ------------------------------------------------------------------------------------------------
# generator
# ------------------------------------------------------------------------------------------------
class Gen:
    """Builds a definition text: some enums/flags, helper structs/unions, then `struct main`."""

    def __init__(self, rng: random.Random, *, bits=True, dynamic=True, unions=True, pointers=True, floats=True,
                 leb=True, wchar=True, depth=2, max_fields=6, eof=True, null=True, void=False, static_only=False, aliases=True,
                 dyn_unions=False, signed_flags=False, dup_flags=False, empty=True):
        self.rng = rng
        self.o = dict(bits=bits, dynamic=dynamic and not static_only, unions=unions, pointers=pointers, floats=floats, leb=leb and not static_only,
                      wchar=wchar, depth=depth, max_fields=max_fields, eof=eof and not static_only, null=null and not static_only, void=void,
                      aliases=aliases, dyn_unions=dyn_unions and not static_only, signed_flags=signed_flags, dup_flags=dup_flags, empty=empty)
        self.decls: list[str] = []
        self.enums: list[str] = []
        self.structs: list[tuple[str, bool]] = []   # (name, is_static)
        self.counter = 0
        self.consts: dict[str, int] = {}

    def fresh(self, p: str) -> str:
        self.counter += 1
        return f"{p}{self.counter}"

    def scalar(self, small=False) -> str:
        r = self.rng
        if small:
            return r.choice(SMALL_UINTS)
        pool = INT_TYPES * 2 + (ALIAS_INTS if self.o["aliases"] else []) + ["char"]
        if self.o["floats"]:
            pool += FLOAT_TYPES
        if self.o["wchar"]:
            pool += ["wchar"]
        if self.o["leb"]:
            pool += ["uleb128", "ileb128"]
        if self.enums:
            pool += self.enums * 2
        return r.choice(pool)

    def make_enum(self) -> str:
        r = self.rng
        name = self.fresh("E")
        kind = r.choice(["enum", "enum", "flag"])
        # flags over SIGNED bases do not preserve negative values (recorded finding, exercised by C12 only)
        base = r.choice(["uint8", "uint16", "uint32", "uint64", None] if kind == "flag" and not self.o.get("signed_flags")
                        else ["uint8", "uint16", "uint32", "int8", "int16", "int32", "uint64", None])
        members, used = [], set()
        for i in range(r.randrange(1, 6)):
            m = f"{name}_{chr(65 + i)}"
            form = r.random()
            if form < 0.5:
                members.append(m)
            elif form < 0.85:
                members.append(f"{m} = {r.choice([0, 1, 2, 3, 4, 7, 8, 16, 64, 100, 127])}")
            elif members:
                prev = members[-1].split(" ")[0]
                members.append(f"{m} = {prev} {r.choice(['+', '|', '*'])} {r.choice([1, 2, 3])}")
            else:
                members.append(m)
        if kind == "flag" and not self.o.get("dup_flags"):
            # duplicate flag values break Python's Flag machinery (recorded finding, exercised by C12 only)
            members = [f"{name}_{chr(65 + i)} = {1 << i}" if r.random() < 0.5 else f"{name}_{chr(65 + i)}" for i in range(len(members))]
            if any("=" in m for m in members):
                members = [f"{name}_{chr(65 + i)} = {1 << i}" for i in range(len(members))]
        head = f"{kind} {name}" + (f" : {base}" if base else "")
        self.decls.append(f"{head} {{ {', '.join(members)} }};")
        self.enums.append(name)
        return name

    def field_lines(self, depth: int, nfields: int, in_union: bool, static_only: bool) -> tuple[list[str], bool]:
        """Returns the field declaration lines and whether all of them are static."""
        r = self.rng
        lines, names, int_names = [], [], []
        all_static = True
        i = 0
        while i < nfields:
            i += 1
            nm = self.fresh("f")
            last = i == nfields
            k = r.random()
            dyn_ok = self.o["dynamic"] and not static_only and (not in_union or self.o["dyn_unions"])
            if self.o["bits"] and k < 0.14 and not in_union:
                # a run of bit fields over one storage type
                st = r.choice(["uint8", "uint16", "uint32", "uint64", "int8", "int16", "int32", "char"] + self.enums[:1])
                width = {"uint8": 8, "int8": 8, "char": 8, "uint16": 16, "int16": 16, "uint32": 32, "int32": 32, "uint64": 64}.get(st, None)
                if width is None:
                    width = 8  # enum: conservative, its base may be wider
                left = width
                for _ in range(r.randrange(1, 5)):
                    if left <= 0:
                        left = width
                    b = r.randrange(1, left + 1)
                    left -= b
                    bn = self.fresh("b")
                    lines.append(f"{st} {bn} : {b};")
                    names.append(bn)
                    int_names.append(bn)
                continue
            if depth > 0 and k < 0.26:
                # nested structure / union: named type declared earlier, inline named, or anonymous
                form = r.random()
                if form < 0.4 and self.structs:
                    cand = [s for s in self.structs if s[1] or not (static_only or in_union)]
                    if cand:
                        sname, sstatic = r.choice(cand)
                        arr = ""
                        if sstatic and r.random() < 0.35:
                            arr = f"[{r.randrange(0, 4)}]"
                        lines.append(f"{sname} {nm}{arr};")
                        all_static &= sstatic
                        names.append(nm)
                        continue
                kw = "union" if (self.o["unions"] and r.random() < 0.3) else "struct"
                sub_static_only = static_only or in_union or (kw == "union" and not (self.o["dyn_unions"] and r.random() < 0.6))
                nsub = 0 if (self.o["empty"] and r.random() < 0.07) else r.randrange(1, 4)      # an empty structure now and then
                sub, sub_static = self.field_lines(depth - 1, nsub, kw == "union", sub_static_only)
                body = " ".join(sub)
                if r.random() < 0.3 and not in_union:
                    lines.append(f"{kw} {{ {body} }};")          # anonymous: members are forwarded
                else:
                    lines.append(f"{kw} {{ {body} }} {nm};")
                    names.append(nm)
                all_static &= sub_static
                continue
            if self.o["pointers"] and k < 0.32:
                tgt = r.choice(["uint8", "uint32", "char", "uint16", "void"] + [s[0] for s in self.structs[:1]])
                lines.append(f"{tgt} *{nm};")
                names.append(nm)
                int_names.append(nm)
                continue
            t = self.scalar()
            is_int = t in INT_TYPES or t in ALIAS_INTS or t in self.enums
            if k < 0.62:
                lines.append(f"{t} {nm};")
                names.append(nm)
                if is_int:
                    int_names.append(nm)
                if t in ("uleb128", "ileb128"):
                    all_static = False
                continue
            # arrays
            form = r.random()
            if t in ("uleb128", "ileb128"):
                all_static = False
            if form < 0.45 or not dyn_ok:
                dims = "".join(f"[{r.choice([0, 1, 2, 3, 4, 5, 8])}]" for _ in range(1 if r.random() < 0.8 else 2))
                if t in ("uleb128", "ileb128") and (static_only or in_union):
                    t = "uint16"
                lines.append(f"{t} {nm}{dims};")
            elif form < 0.75 and int_names:
                ref = r.choice(int_names)
                ex = r.choice([ref, f"{ref} * 2", f"{ref} + 1", f"{ref} & 3", f"({ref} + 1) * 2", f"{ref} - 1", f"-{ref}", f"{ref} % 4",
                               f"sizeof(uint16) * {ref}", f"{ref} >> 1", f"CONST_A + {ref}", f"{ref}/2"])
                if "CONST_A" in ex:
                    self.consts["CONST_A"] = 2
                lines.append(f"{t} {nm}[{ex}];")
                all_static = False
            elif form < 0.9 and self.o["null"]:
                lines.append(f"{t} {nm}[];")
                all_static = False
            elif last and self.o["eof"] and depth == self.o["depth"]:
                lines.append(f"{t} {nm}[EOF];")
                all_static = False
            else:
                lines.append(f"{t} {nm}[{r.choice([1, 2, 3])}];")
            names.append(nm)
        return lines, all_static

    def build(self) -> str:
        r = self.rng
        for _ in range(r.randrange(0, 3)):
            self.make_enum()
        for _ in range(r.randrange(0, 3)):
            kw = "union" if (self.o["unions"] and r.random() < 0.25) else "struct"
            name = self.fresh("S")
            static_only = kw == "union" or r.random() < 0.6
            nsub = 0 if (self.o["empty"] and r.random() < 0.08) else r.randrange(1, 4)
            lines, st = self.field_lines(max(0, self.o["depth"] - 1), nsub, kw == "union", static_only)
            self.decls.append(f"{kw} {name} {{ {' '.join(lines)} }};")
            self.structs.append((name, st))
        lines, _ = self.field_lines(self.o["depth"], r.randrange(1, self.o["max_fields"] + 1), False, False)
        defs = "".join(f"#define {k} {v}\n" for k, v in self.consts.items())
        return defs + "\n".join(self.decls) + f"\nstruct main {{ {' '.join(lines)} }};\n"


def load(text: str, *, endian="<", pointer=None, compiled=True, align=False):
    from dissect.cstruct import cstruct

    cs = cstruct(endian=endian, pointer=pointer)
    cs.load(text, compiled=compiled, align=align)
    return cs


# ------------------------------------------------------------------------------------------------
# live class -> Coq terms
# ------------------------------------------------------------------------------------------------
def prim_term(t) -> str:
    from dissect.cstruct.types import LEB128, Char, Int, Packed, Void, Wchar

    if issubclass(t, Packed):
        if issubclass(t, float):
            return f"(PFloat {cnat(t.size)})"
        return f"(PInt {cnat(t.size)} {cbool(t.packchar.islower())} true)"
    if issubclass(t, Int):
        return f"(PInt {cnat(t.size)} {cbool(bool(t.signed))} false)"
    if issubclass(t, Char):
        return "PChar"
    if issubclass(t, Wchar):
        return "PWchar"
    if issubclass(t, LEB128):
        return f"(PLeb {cbool(bool(t.signed))})"
    if issubclass(t, Void):
        return "PVoid"
    raise TypeError(f"not a primitive: {t}")


def len_term(n) -> str:
    from dissect.cstruct.expression import Expression

    if n is None:
        return "LNull"
    if isinstance(n, Expression):
        return f"(LExpr (toks_of {cstr(n.expression)}) {cbool(n.expression == 'EOF')})"
    return f"(LFixed {cz(int(n))})"


def ty_term(t, given_offsets: dict | None = None) -> str:
    """Coq `ty` for a live type class. Offsets are NOT copied (the model computes them) unless given explicitly."""
    from dissect.cstruct.types import BaseArray, Enum, Flag, Pointer, Structure, Union

    if issubclass(t, (Enum, Flag)):
        members = clist((cpair(cstr(k), cz(int(v.value))) for k, v in t.__members__.items()), "(string * Z)")
        return f"(TEnum {prim_term(t.type)} {cz(t.alignment or 0)} {cbool(issubclass(t, Flag))} {members})"
    if issubclass(t, Pointer):
        return f"(TPtr {ty_term(t.type)})"
    if issubclass(t, BaseArray):
        return f"(TArr {ty_term(t.type)} {len_term(t.num_entries)})"
    if issubclass(t, Structure):
        fs = []
        for f in t.__fields__:
            go = None if given_offsets is None else given_offsets.get(id(f))
            fs.append(f"Fld {cstr(f._name)} {cbool(f.name is None)} {ty_term(f.type)} {copt(f.bits, cz)} {copt(go, cz)}")
        kw = "TUnion" if issubclass(t, Union) else "TStruct"
        return f"({kw} {cstr(t.__name__)} {clist(fs, 'field')} {cbool(bool(t.__align__))})"
    return f"(TPrim {prim_term(t)} {cz(t.alignment or 0)})"


def sizeof_names(text: str) -> list[str]:
    return sorted(set(re.findall(r"sizeof\s*\(\s*([A-Za-z_][A-Za-z0-9_]*)\s*\)", text)))


def cfg_term(cs, text: str = "") -> str:
    consts = [(k, int(v)) for k, v in cs.consts.items() if isinstance(v, int) and not isinstance(v, bool)]
    sz = []
    for n in sizeof_names(text):
        try:
            sz.append((n, len(cs.resolve(n))))
        except Exception:  # noqa: BLE001
            pass
    return (f"(mkCfg {cstr(cs.endian)} {prim_term(cs.pointer)} {cz(cs.pointer.alignment or 0)} "
            f"{clist((cpair(cstr(k), cz(v)) for k, v in consts), '(string * Z)')} {clist((cpair(cstr(k), cz(v)) for k, v in sz), '(string * Z)')})")


# ------------------------------------------------------------------------------------------------
# values (type-directed)
# ------------------------------------------------------------------------------------------------
class HasNaN(Exception):
    pass


def bits_of_float(size: int, x: float) -> int:
    eb, mb = canon.FLOAT_PARAMS[size]
    bias = (1 << (eb - 1)) - 1
    if math.isnan(x):
        raise HasNaN
    sign = 1 if math.copysign(1.0, x) < 0 else 0
    x = abs(x)
    top = sign << (eb + mb)
    if x == 0:
        return top
    if math.isinf(x):
        return top | (((1 << eb) - 1) << mb)
    m, e = math.frexp(x)
    E = e - 1 + bias
    if E >= 1:
        mant = math.ldexp(m, mb + 1) - (1 << mb)
    else:
        E, mant = 0, math.ldexp(x, bias - 1 + mb)
    assert mant == int(mant), "value not representable in its own format"
    return top | (E << mb) | int(mant)


def value_term(v, t) -> str:
    """Coq `value` of an implementation value v whose declared type class is t."""
    from dissect.cstruct.types import BaseArray, Char, CharArray, Enum, Flag, Packed, Pointer, Structure, Union, Void, Wchar, WcharArray
    from dissect.cstruct.types.structure import UnionProxy

    if type(v) is UnionProxy:
        v = object.__getattribute__(v, "__target__")
    if issubclass(t, (Enum, Flag)):
        return f"(VInt {cz(int(v.value) if isinstance(v, (Enum, Flag)) else int(v))})"
    if issubclass(t, Pointer):
        return f"(VInt {cz(int.__int__(v))})"
    if issubclass(t, (CharArray, Char)):
        return f"(VBytes {canon.cbytes(bytes(v))})"
    if issubclass(t, (WcharArray, Wchar)):
        return f"(VWstr {canon.ccps(str(v))})"
    if issubclass(t, BaseArray):
        return "(VList " + clist((value_term(x, t.type) for x in v), "value") + ")"
    if issubclass(t, Union):
        buf = object.__getattribute__(v, "_buf") if "_buf" in v.__dict__ else b""
        fs = [cpair(cstr(f._name), field_term(v.__dict__[f._name], f)) for f in t.__fields__]
        return f"(VUnion {canon.cbytes(buf)} {clist(fs, '(string * value)')})"
    if issubclass(t, Structure):
        fs = [cpair(cstr(f._name), field_term(getattr(v, f._name), f)) for f in t.__fields__]
        sizes = v.__dict__.get("_sizes", {}) or {}
        ss = [cpair(cstr(f._name), cz(int(sizes[f._name]))) for f in t.__fields__ if f._name in sizes]
        return f"(VStruct {clist(fs, '(string * value)')} {clist(ss, '(string * Z)')})"
    if issubclass(t, Void):
        return "VVoid"
    if issubclass(t, Packed) and issubclass(t, float):
        return f"(VFloat {cz(bits_of_float(t.size, float(v)))})"
    return f"(VInt {cz(int(v))})"


def field_term(v, f) -> str:
    """A field's value: bit fields are plain integers whatever their storage type (enums keep their value)."""
    from dissect.cstruct.types import Enum, Flag

    if f.bits:
        return f"(VInt {cz(int(v.value) if isinstance(v, (Enum, Flag)) else int(v))})"
    return value_term(v, f.type)


def py_field(v, f):
    from dissect.cstruct.types import Enum, Flag

    if f.bits:
        return int(v.value) if isinstance(v, (Enum, Flag)) else int(v)
    return py_value(v, f.type)


def py_value(v, t):
    """Plain-Python canonical form (for oracles): nested tuples/lists/ints/bytes."""
    from dissect.cstruct.types import BaseArray, Char, CharArray, Enum, Flag, Packed, Pointer, Structure, Union, Void, Wchar, WcharArray
    from dissect.cstruct.types.structure import UnionProxy

    if type(v) is UnionProxy:
        v = object.__getattribute__(v, "__target__")
    if issubclass(t, (Enum, Flag)):
        return int(v.value) if isinstance(v, (Enum, Flag)) else int(v)
    if issubclass(t, Pointer):
        return int.__int__(v)
    if issubclass(t, (CharArray, Char)):
        return bytes(v)
    if issubclass(t, (WcharArray, Wchar)):
        return str(v)
    if issubclass(t, BaseArray):
        return [py_value(x, t.type) for x in v]
    if issubclass(t, Union):
        return ("union", bytes(v.__dict__.get("_buf", b"")), [(f._name, py_field(v.__dict__[f._name], f)) for f in t.__fields__])
    if issubclass(t, Structure):
        return ("struct", [(f._name, py_field(getattr(v, f._name), f)) for f in t.__fields__])
    if issubclass(t, Void):
        return None
    if issubclass(t, Packed) and issubclass(t, float):
        x = float(v)
        return ("nan",) if math.isnan(x) else ("f", bits_of_float(t.size, x))
    return int(v)


class Hang(BaseException):
    """The implementation did not finish within the watchdog time (a non-terminating loop).
    Not an Exception: the library's own `except Exception` must not swallow the watchdog."""


class time_limit:
    """Watchdog on the CPU time of this process (not wall-clock time: a loop that does not terminate burns CPU, while a machine busy with
    other work - several checks and coqc side by side - must not turn a 2 ms parse into a "hang").  The cyclic garbage collector is switched
    off inside the guarded region: a full collection of the harness's own heap (tens of thousands of cases and their Coq terms) takes
    seconds and would otherwise be charged to whatever library call happens to be running when it starts.  A signal that arrives when the
    guarded call has already returned is ignored."""

    def __init__(self, seconds: float):
        self.seconds = seconds
        self.done = False

    def __enter__(self):
        import gc
        import signal
        import time as _t

        def handler(signum, frame):
            if self.done:
                return
            if os.environ.get("VF_HANG_TRACE"):
                import traceback
                with open(os.environ["VF_HANG_TRACE"], "a") as fh:
                    fh.write(f"--- hang after {self.seconds}s cpu; wall {_t.time() - self.t0:.3f}s; process_time {_t.process_time() - self.c0:.3f}s\n")
                    fh.write("".join(traceback.format_stack(frame)[-12:]))
            raise Hang(f"no result after {self.seconds}s")

        self.t0, self.c0 = _t.time(), _t.process_time()
        self.gc_was_on = gc.isenabled()
        gc.disable()
        self.old = signal.signal(signal.SIGVTALRM, handler)
        signal.setitimer(signal.ITIMER_VIRTUAL, self.seconds, 0.5)

    def __exit__(self, *a):
        import gc
        import signal

        self.done = True
        signal.setitimer(signal.ITIMER_VIRTUAL, 0)
        signal.signal(signal.SIGVTALRM, self.old)
        if self.gc_was_on:
            gc.enable()
        return False


def parse(cs, tname: str, data: bytes, pos: int = 0):
    """Run the implementation's reader from a BytesIO at pos; returns ('ok', value, newpos) or ('err', exc)."""
    T = cs.resolve(tname)
    st = io.BytesIO(data)
    st.seek(pos)
    try:
        with time_limit(1.5):
            v = T._read(st)
        return ("ok", v, st.tell())
    except RecursionError:
        raise
    except (Exception, Hang) as e:  # noqa: BLE001
        return ("err", e)


def read_result_term(r, T) -> str:
    if r[0] == "ok":
        return f"(Ok ({value_term(r[1], T)}, {cz(r[2])}))"
    return canon.cerr(r[1])


# ------------------------------------------------------------------------------------------------
# constructed values (type-directed): a python value the implementation accepts for a field of type t
# ------------------------------------------------------------------------------------------------
def int_range(t):
    from dissect.cstruct.types import Int, Packed

    bits = t.size * 8
    signed = t.packchar.islower() if issubclass(t, Packed) else bool(t.signed) if issubclass(t, Int) else False
    return (-(1 << (bits - 1)), (1 << (bits - 1)) - 1) if signed else (0, (1 << bits) - 1)


def gen_py(t, rng: random.Random, overflow: list | None = None):
    """overflow: a one-element list used as a flag; when [True] the first integer met gets an out-of-range value."""
    from dissect.cstruct.expression import Expression
    from dissect.cstruct.types import LEB128, BaseArray, Char, CharArray, Enum, Flag, Int, Packed, Pointer, Structure, Union, Void, Wchar, WcharArray

    def pick_int(lo, hi):
        if overflow and overflow[0]:
            overflow[0] = False
            return rng.choice([hi + 1, lo - 1, hi + rng.randrange(1, 1000), (hi + 1) * 2])
        return rng.choice([lo, hi, 0, 1, rng.randrange(lo, hi + 1), rng.randrange(lo, hi + 1)])

    if issubclass(t, (Enum, Flag)):
        lo, hi = int_range(t.type) if t.type.size is not None else (0, 1 << 20)
        if issubclass(t, Flag):
            # Flag(-1) means "all bits": a negative number is not an out-of-range value for a flag
            if overflow and overflow[0]:
                overflow[0] = False
                return t(hi + rng.choice([1, 2, 1000]))
            lo = 0
        return t(pick_int(lo, hi))
    if issubclass(t, Pointer):
        lo, hi = int_range(t.cs.pointer)
        return pick_int(lo, hi)
    if issubclass(t, CharArray):
        n = t.num_entries if isinstance(t.num_entries, int) else rng.randrange(0, 5)
        return bytes(rng.randrange(1, 256) for _ in range(n))
    if issubclass(t, WcharArray):
        n = t.num_entries if isinstance(t.num_entries, int) else rng.randrange(0, 5)
        # a fixed wchar[n] holds n UTF-16 units: BMP characters only (an astral character is two units)
        return "".join(chr(rng.choice([65, 0x3A9, 0x4E2D, 0xFFFD, 1])) for _ in range(n))
    if issubclass(t, BaseArray):
        if isinstance(t.num_entries, Expression):
            raise NotImplementedError("expression-sized arrays are not constructed directly")
        n = t.num_entries if isinstance(t.num_entries, int) else rng.randrange(0, 4)
        out = []
        for _ in range(max(0, n)):
            v = gen_py(t.type, rng, overflow)
            if t.null_terminated:
                while not bool(v) or v == 0:
                    v = gen_py(t.type, rng, None)
            out.append(v)
        return out
    if issubclass(t, Union):
        raise NotImplementedError("unions are not constructed directly")
    if issubclass(t, Structure):
        obj = t()
        for f in t.__fields__:
            if f.bits:
                v = rng.choice([0, (1 << f.bits) - 1, rng.randrange(0, 1 << f.bits)])
                if overflow and overflow[0] and not issubclass(f.type, (Enum, Flag)):
                    # a value one bit too wide (or negative) for the bit field: it must be rejected, not spill into the neighbouring fields
                    overflow[0] = False
                    v = rng.choice([1 << f.bits, (1 << f.bits) + 1, -1])
                setattr(obj, f._name, f.type(v) if issubclass(f.type, (Enum, Flag)) else v)
            else:
                setattr(obj, f._name, gen_py(f.type, rng, overflow))
        return obj
    if issubclass(t, Void):
        return t()
    if issubclass(t, Char):
        return bytes([rng.randrange(0, 256)])
    if issubclass(t, Wchar):
        return chr(rng.choice([0, 65, 0x3A9, 0xFFFF, 0x4E2D]))
    if issubclass(t, LEB128):
        return pick_int(-(1 << 70) if t.signed else 0, 1 << 70)
    if issubclass(t, Packed) and issubclass(t, float):
        eb, mb = canon.FLOAT_PARAMS[t.size]
        bits = rng.choice([0, 1 << (8 * t.size - 1), rng.randrange(0, 1 << (8 * t.size))])
        x = canon.float_of_bits(t.size, bits)
        return 1.5 if math.isnan(x) else x
    lo, hi = int_range(t)
    return pick_int(lo, hi)
